#!/usr/bin/env python3
"""store_seed.py <seed id> <property> "<detection text>"  -- copies /tmp/seed/<id>/SEED into /verif/seeded/<id> with meta.json"""
import json, os, shutil, sys
sid, prop, det = sys.argv[1], sys.argv[2], sys.argv[3]
src = f"/tmp/seed/{sid}/SEED"
dst = f"/verif/seeded/{sid}"
os.makedirs(dst, exist_ok=True)
for f in os.listdir(src):
    if f.startswith("confirm_") or f.endswith(".log") or f in ("work", "target"):
        continue
    p = os.path.join(src, f)
    if os.path.isdir(p):
        shutil.copytree(p, os.path.join(dst, f), dirs_exist_ok=True)
    else:
        shutil.copy(p, dst)
a = json.load(open(os.path.join(dst, "meta.json")))
cw = open(os.path.join(src, "confirm_with.log")).read().strip().splitlines()[-1] if os.path.exists(os.path.join(src, "confirm_with.log")) else "?"
co = open(os.path.join(src, "confirm_without.log")).read().strip().splitlines()[-1] if os.path.exists(os.path.join(src, "confirm_without.log")) else "?"
m = {"id": sid, "property": prop, "summary": a.get("summary"), "needs_to_manifest": a.get("needs_to_manifest"), "files_changed": a.get("files_changed"),
     "demonstration": a.get("demo_cmd"),
     "confirmed_by_me": {"what_i_ran": f"tools/confirm_seed.sh /tmp/seed/{sid} <demo> (with the patch, then with the patch stashed)", "with_patch": cw, "without_patch": co,
                         "agent_with_patch": a.get("demo_result_with_patch"), "agent_without_patch": a.get("demo_result_without_patch"), "existing_tests": a.get("tests_result")},
     "detection": {"result": det, "check_cmd": f"git -C /repo apply /verif/seeded/{sid}/patch.diff; ./check {prop}; git -C /repo checkout -- ."}}
json.dump(m, open(os.path.join(dst, "meta.json"), "w"), indent=1)
print("stored", dst)
