#!/usr/bin/env python3
"""Regenerates /verif/MANIFEST.json from the claims below (single source of truth for the manifest)."""
import json
import os
import subprocess

HERE = os.path.dirname(os.path.dirname(os.path.abspath(__file__)))

NOT_APPLICABLE = {
    "C03": "equality of interpolated outlines with masters is a numeric statement about deltas, region scalars and rounding; no code-shape clause implies it (static analysis cannot bound the runtime values; a runtime test would be a different technique family)",
    "C04": "advances and MVAR metrics evaluated through variation stores: numeric, not visible in code shape",
    "C06": "glyph set/order/cmap contents are values computed from the source; the only shape-level facet (hash order of leftover glyphs) is covered under C01",
    "C07": "variation-model algebra (exact reproduction, region validity, permutation invariance) is numeric; static analysis could only restate the code",
    "C08": "agreement of two normalisation routes over all coordinates is piecewise-linear arithmetic; the unit-safety part is already enforced by typed coordinate spaces at compile time",
    "C09": "kerning values per pair/master through GPOS and variation store: numeric",
    "C10": "anchor coordinates per master through GPOS: numeric",
    "C11": "behavioural equivalence of compiled lookups with FEA semantics is a compiler-correctness statement over programs and glyph strings",
    "C12": "outline equality across component options is geometry over all transforms and locations",
    "C16": "region overlay equivalence at every point of design space: geometry",
    "C17": "summary fields vs recomputation from emitted tables: numeric",
}

CLAIMS = {}


def claim(pid, engine, technique, text, note, design_ref):
    CLAIMS[pid] = {
        "property_id": pid,
        "quick_cmd": f"./check {pid} --tier quick",
        "thorough_cmd": f"./check {pid} --tier thorough",
        "evidence_file": f"/verif/evidence/{pid}.json",
        "replay_cmd_template": f"./check {pid} --replay {{path}}",
        "engine": engine,
        "level_claimed": {"category": "other", "text": text, "design_ref": design_ref},
        "level_note": note,
        "technique": technique,
    }


claim("C02", "E1",
      "static analysis: MIR effect analysis of every Work impl + forced happens-before closure over the declared/rewritten dependency graph (rustc_private driver facts, call-graph reachability, dominators)",
      "Static decision, for all schedules at once, of the structural clauses of task-graph safety at job-type/variant granularity: declared-vs-actual "
      "effects of every job (R1, R2'), a forced order between every reader and every writer of every context slot including backend reads of the "
      "frontend context that the runtime ACL never checks (R2, R5, R6), the dynamic-job guard against the 647/655/1436 bug class (R3), "
      "Unknown/rewrite pairing (R4), counter-before-send in the worker closure in both build configurations (R7), main-thread reads (R8), and "
      "must-set vs panicking get() (R9), and the scheduler's rewrite of a backend glyph job's read access enumerating every source of the glyph, not one instance (R15; seeded), and the audited write functions of the glyph-order job behind the one instance-level exception (a write of the glyph map from any other function is an R2 violation; seeded). Tests see one interleaving per run; the scheduler is declarative, so whether the declarations force an "
      "order is visible in the code for every schedule. This is not a proof of the behaviour: instance-level ordering inside multi-instance "
      "variants is covered by audited exceptions with re-checked witnesses, and counter arithmetic ('completed twice') is not decided.",
      "Trusted: rustc nightly MIR/trait resolution, the fact extractor and python rules, scheduler semantics of can_run/is_dep_fulfilled taken as axioms, "
      "audited exception table tables/e1_exceptions.json (each entry has a machine-checked witness), crossbeam/rayon/parking_lot correctness. "
      "A violation names the job, slot, writer and the missing edge; exit 2 means the checker could not see the code (anchor/floor failure).",
      "DESIGN.md section 3")


claim("C05", "E3+E5",
      "static analysis: type-resolved error-discard census over MIR (Engler-style error discipline) + sibling-table agreement of the font assembly tables + forward data-flow / CFG ordering rules for name-id remapping and table-builder emptiness verdicts",
      "Static decision of structural necessary conditions of 'every emitted font is well-formed': (T2) count fields of emitted tables never come from the FEA override tables; "
      "(T3) a table builder's is_empty() verdict - which decides whether the table is emitted at all - is taken after every field it reads is final (a half-filled "
      "GDEF builder used to be droppable while GSUB/GPOS already referred to its mark glyph sets; seeded, not a defect of the pinned tree); (T4) every field that "
      "receives a name id minted by the feature compiler is adjusted by remap_name_ids (found: the size feature's menu name id; repaired) and every field it rewrites goes through its reserved-id-preserving closure (found: STAT elided fallback id 2 became 4; repaired); "
      "(T6) axis indices come from the variable axes only: StaticMetadata.all_source_axes is read by front ends alone (seeded); (T9) every Post::new_v2 call in the backend is dominated by an examined check that each glyph name fits a Pascal string (found: a 300-byte glyph name gave an unreadable post table with exit 0; repaired); (a) no serialisation or compile error is dropped "
      "between a job's table value and the bytes handed to the font builder, for every function reachable from the entry points (each of the "
      "type-resolved discard sites is audited or reported; the to_bytes().ok() defect that produced a font without a name table was found this way and "
      "repaired); (b) TABLES_TO_MERGE, font::has, font::bytes_for and FontWork::read_access agree arm by arm, list the required tables, and every table "
      "slot that is written is consumed. Error paths are taken only by unusual inputs, which is why tests do not settle this; the rule is over all call "
      "sites. It does NOT decide checksums, offsets, cross-table index ranges or glyph-count agreement - those are values produced by write-fonts.",
      "Trusted: rustc MIR, the extractor, the audited allow table tables/e3_allow.json (function + idiom + error type + count + reason), the OpenType "
      "required-table list. Unrecognised discard idioms fail closed only for the enumerated Result methods; a hand-written match that binds the "
      "error and ignores it is not detected.",
      "DESIGN.md sections 5.1, 5.3")

claim("C14", "E5",
      "static analysis: structural rules over the file-name derivation (match-arm exhaustiveness, literal distinctness, format-spec scan from the AST), serde attribute census, restore-path call confinement",
      "Static decision of the structural clauses of C14 only (P1-P4): distinct work-id variants map to distinct file names at the variant level, no "
      "lossy (precision) formatting in a persisted file name, no undocumented serde(skip) on persisted types, disk reads confined to the restore path, "
      "(P5) every metacharacter string_to_filename introduces is itself reserved, (P6) hand-written Serialize/Deserialize impls on IR/BE types are a reviewed census (a new one is a violation), (P7) no field of a serde-derived IR/BE type has a partial serializer (PathBuf/OsString/SystemTime: Persistable::write unwraps, so --emit-ir panics where the plain build succeeds; three FeaturesSource path fields are a known finding). "
      "These are necessary conditions: breaking any of them makes two items share a file or lose a field on read-back for some input. Round-trip "
      "value equality, byte-identity of the font with --emit-ir and string_to_filename injectivity are value-level and NOT decided.",
      "Trusted: rustc MIR and AST (format_args placeholders are read from the expanded AST), tables/e5_tables.json (documented session-only fields).",
      "DESIGN.md section 5.3")

claim("C20", "E5",
      "static analysis: call-graph dominator (single pipeline) over the resolved whole-program call graph; constant-key data-flow rules over MIR for the source loaders (which lib keys are looked up on which dictionary)",
      "Static decision of seven structural clauses of C20: (L10) on the route that loads a Glyphs source from a path only the audited loaders touch the file system - a sibling file consulted beside the source is invisible to the in-memory route (seeded); (L9) inside the read_dir loop of the .glyphspackage loader a branch depends only on the audited conditions (extension is `glyph`; an empty glyphname is an error) - glyphs are identified by the glyphname inside each file, so a file-name filter drops a glyph the single .glyphs file has (seeded); (Q1) the CLI entry point and the library entry point reach scheduler and context construction through one common "
      "function (a call-graph dominator of Workload::new, Workload::exec and both Context::new_root), and nothing else constructs them; (L2) the .glyphspackage "
      "loader does not consult custom parameters the single-file loader does not; (L4) `public.*` UFO lib keys are looked up on the designspace lib only for the "
      "documented key, because that lib holds the default master's public keys only for a lone UFO - any other key would make a lone UFO and a designspace "
      "listing only that UFO build different fonts; (L7) the Glyphs plist scalar accessors agree on accepting quoted and unquoted spellings of a scalar; (L8) the raw Glyphs text "
      "is not rewritten by regular expressions before the tokenizer. L7 and L8 each report one genuine defect of the pinned tree, listed as KNOWN findings (reproduced; not small to repair); a second L7 report (order.plist read through expect_string) was repaired. "
      "Container equivalence in general and the rest of formatting insensitivity are parser semantics and NOT decided.",
      "Trusted: rustc MIR and the call graph (CHA for trait objects); dominators are computed by node removal over the reachable graph.",
      "DESIGN.md section 5.3 (Q1)")


claim("C15", "E4+E3",
      "static analysis: crash-containment who-may-call rules, call-graph SCC (recursion) census with re-checked guards (dominance, depth constants, acyclicity check ordering), natural-loop census over MIR CFGs with class witnesses, unsafe census, error-discard census",
      "Known findings printed by the check: seven todo!() stubs in fontra2fontir (X3) and the unbounded recursion DEPTH of fontbe bbox_of_composite (X4: a valid 6000-level component chain overflows a worker stack, exit 134; reproduced). Static decision of the crash-containment structure behind 'bad input ends in a reported error': every job runs under catch_unwind and unwinding "
      "is not disabled; process exit/abort only in the binary and always non-zero on error; no font file written on failure; no todo!() reachable on "
      "the main thread (the seven Fontra stubs are listed known findings); every recursive call cycle reachable from the entry points has a recorded "
      "termination/stack argument, and for recursion whose depth follows the input (plist nesting, component graph, include graph) the guard that "
      "bounds it is re-checked structurally on every run (this census found the component-cycle and plist-nesting stack overflows, both repaired); "
      "unsafe blocks are the audited six; no tracked error is dropped; (X8) no input is read or parsed on the main thread after source construction; "
      "(X6 also: inside IncludeGraph::validate the popped file is pushed back on the chain of open files before the scan that detects a cycle; seeded: a non-root self-include overflowed the stack) (X9) threads/rayon scopes are created only inside the scheduler; (X10) every loop that is not driven by a std iterator (80 of 655 in the "
      "compile path outside the feature-file parser, whose loops are proved by C13/G1) is listed with the reason it terminates and a re-checked "
      "class (index arithmetic / shrinking call / cursor API / generated plist reader): a new `while`/`loop` that follows references from the "
      "input is a violation until audited; (X11) a wide integer parsed from the input (u32/u64/usize `str::parse`, `from_str_radix`) never sizes a loop or an allocation "
      "(a u16 bounds the expansion of a glyph range by its type); (X12) source loaders, which interpret the whole input on the calling thread before any job exists, "
      "run under catch_unwind (found: loader panics ended the process with status 101; repaired). It quantifies over all inputs because it is a rule over code shape. It does NOT decide time or memory "
      "bounds, nor that the audited loop reasons are true (they were read, not proved).",
      "Trusted: rustc MIR, call graph with class-hierarchy expansion for workspace traits (std-trait callbacks not expanded in the census), "
      "tables/e4_recursion.json (class + reason per cycle, confirmed by reading), std::panic::catch_unwind semantics. A stack overflow is not a "
      "panic, which is why containment alone is not enough and the recursion census exists.",
      "DESIGN.md sections 5.1, 5.2")

claim("C13", "E7+E4+E5",
      "static analysis: context-sensitive forward dataflow over MIR of the recursive-descent parser (abstract token-kind sets evaluated from the TokenSet constants, path-sensitive on eat/expect/matches results, closures and fn items bound per call site; greatest-fixpoint summaries) deciding per-loop token consumption and feasibility of assertion failures; plus guard dominance / data-flow of the include-validation result, field-write ownership, must-call pairing and a diagnostic-range provenance rule",
      "Static decision of these clauses of C13: (G4) validation does not call the typed-AST accessors that unwrap a parse of the token TEXT (a NUMBER has any length): nine call-site keys are KNOWN findings (reproduced: `UnicodeRange 40000;`, a CID above 65535 and `parameters 10 40000;` panic in validation), a new one is a violation; (G1) TERMINATION of the parser proper (parser.rs, grammar/*): every trip round each of its 38 loops "
      "consumes at least one non-EOF lexeme (4 are std-iterator loops, one path is an audited exception with a re-checked witness), so no error-recovery "
      "path can spin, and the same engine proves the 8 loops of the contextual-rule rewriter (token_tree::rewrite); this found two real hangs (`@a = [; - b];`, `anchorDef (wght=200:5 longident) 5 foo;`), both repaired. (G2) NO PANIC in the same "
      "modules: of 118 assertion / unwrap / index / overflow sites, 67 are infeasible given the token facts on every path reaching them, 10 are "
      "constant-index bounds checks, the other 41 are listed per (function, kind, count) with the reason they cannot fire - a new site is a violation; "
      "auditing that list found two real panics (`table mark { } mark;`, `${a-12.5}`), both repaired. (G3) VALIDATION DOES NOT PANIC ON ERROR-FREE TREES, "
      "as writer/reader agreement: for every node kind the children the parser has emitted on every error-free path when it finishes the node (third mode of the dataflow) "
      "are compared with the children that 71 typed-AST accessors unwrap (reader table generated from typed.rs, reviewed, guarded by a census of unwrap sites); this found five "
      "inputs that parse cleanly and panic in validation (`pos cursive|base|ligature|mark <anchor..>..` without the glyph, `lookup ;;`, `sub a from;`), all repaired. (X6) cyclic or too-deep includes are rejected "
      "before the recursive tree assembly and the rejected edges are honoured by it. (L1) a necessary condition of losslessness: a single owner of the "
      "source cursor, the lexer pulled only by Parser::advance, every advance paired with AstSink::token. (L3) a necessary condition of 'diagnostics "
      "point inside the source on char boundaries': ranges handed to diagnostics are token/node ranges, not byte arithmetic (the two `pos..pos+1` helpers "
      "that could point one byte past the end or inside a multi-byte character were found by this rule and repaired). (L5) character counts never meet byte lengths or become "
      "Range bounds in the front end (a `chars().count()` used as an offset slices inside a multi-byte character). (L6) the lexer builds an Eof lexeme only when "
      "the input is exhausted (a NUL byte used to end the token stream silently; repaired). NOT decided: the lexer's loops (census "
      "with read reasons only, under C15/X10), panic-freedom outside parser.rs/grammar (lexer, token tree, validation), the truth of the audited "
      "reasons (they were read, not proved), exact equality of concatenated token texts with the input.",
      "Trusted: rustc MIR and const evaluation (TokenSet values); the primitive table in tables/e7_tables.json (Parser::do_bump/advance consume one "
      "lexeme iff not at EOF; Parser::matches/nth/nth_raw/nth_range read the lookahead buffer; Kind::to_token_kind is a total map read off its MIR); "
      "A2: the lexer returns non-empty lexemes until EOF and EOF is absorbing; std iterators are finite; the audited panic-site and loop tables.",
      "DESIGN.md sections 5.2 (X6), 5.3 (L1, L3), 12.6 (E7: G1, G2)")


claim("C01", "E2+E1",
      "static analysis: forward order-taint of every HashMap/HashSet iteration over MIR (adapters, collects, loops, callees, return summaries) with an audited table and re-checked witnesses; who-may-call rules for clock/env/thread/address/statics; no interior-mutable state in the Context structs outside the scheduler-ordered slots (N6); reuse of the forced happens-before result of C02",
      "Static decision of the structural clauses of repeatable builds: the process-dependent inputs (hash seeds, clock, environment, thread identity, "
      "addresses, hidden shared state) cannot reach a context slot or the font bytes except through order-normalising operations, and (with C02's "
      "result) every job reads the same values in every schedule. A HashMap leak shows only for some seeds and only when two keys compete, which "
      "tests do not sample; as a shape (order-sensitive consumer on a hash-ordered iterator) it is enumerable: 228 sites, each auto-safe, audited "
      "with a witness, or reported. This found the find_map over StaticMetadata.names (2 distinct fonts in 16 runs; repaired). It does NOT decide "
      "that jobs are otherwise deterministic functions (float evaluation order inside kurbo/write-fonts, table packing).",
      "Trusted: rustc MIR; ordered containers (IndexMap/BTreeMap/Vec) define order; tables/e2_hash_audit.json (reason + recorded flow signatures + "
      "witness per audited site: a new flow at an audited site is reported), tables/e2_tables.json. Known imprecision, fail-closed: unrecognised uses "
      "of a hash-ordered value need an audit entry; a last-wins insert into a map with colliding keys is only detected for the re-keyed-by-value collect form.",
      "DESIGN.md section 4")

claim("C18", "E2+E5",
      "static analysis: the C01 hash-order taint analysis restricted to the name flow (name-id allocation, name table assembly, fvar/STAT references, fea-rs name handling); forward data-flow from the name-id minting calls to output-table fields compared with the fields the remap function writes (sibling agreement); path enumeration over the CFG of the NameId lookup predicates against the allocator's reserved-id constants",
      "Static decision of SEVEN clauses of C18 - (T12) the allocator of font-specific name ids starts from the maximum over all source name records (map keyed by NameKey), never from a map re-keyed by string (seeded) - (plus T10 inside the T4/T5 clause: the ids cvParameters addresses as first+i come from the allocator T5 verifies; seeded): (T8) a non-empty record - inside StaticMetadata::new every registration of a NamedInstance field as a name record is preceded by an emptiness test of that field (found: stylename=\"\" produced an empty record that fvar referred to; repaired); (T7) ids below 256 only where the specification allows - every accepting path of the backend's NameId lookup predicates (fvar, STAT) establishes id >= 256 or id in the reserved set the allocator and the fvar specification agree on (2, 17), and only the default instance may ask for a reserved id (found: subfamilyNameID 1 for a default instance named like the family; repaired); (N5) every name record derived from the source reaches the merge with the feature file's records, which replaces one only on an equal "
      "platform/encoding/language/name-id key (seeded); (T5) the feature-code name-id allocator is advanced on every path of the function that hands an id out "
      "(found: a group of empty names left it untouched and the next group got the same id; repaired); (H) the name table and the name ids other tables refer to do not depend on anything but the source, i.e. "
      "not on per-process hash iteration order; (T4) every output-table field that receives a name id minted by the feature compiler (featureNames, "
      "cvParameters, sizemenuname, STAT names) is adjusted when those ids are shifted past the ids the font already uses - a forgotten field refers to "
      "a record that is not there or to someone else's (found: the size feature's menu name pointed at the fvar axis name; repaired). Referential "
      "integrity of name ids in general and the documented fallback chain are value-level and NOT decided.",
      "Trusted: as for C01; scope = functions of fontir::ir::static_metadata, fontbe::{name,fvar,stat}, fea_rs::compile::{output,tables::name,tables::stat}, FeatureCompilationWork. "
      "T4 sees a minted id only where it is stored through a struct literal or field assignment in fea-rs (ids passed to write-fonts constructors are not followed).",
      "DESIGN.md section 4.3")


claim("C19", "E6",
      "static analysis: census of narrowing sites named by MIR built with -C overflow-checks=on (IntToInt/FloatToInt casts, Assert(Overflow) on sub-64-bit integers, saturating ot_round / F2Dot14 / Fixed conversions) over the call-graph reach of every job, with an audited range table; who-may-call + must-call-after rule for the cached overflow summaries",
      "Static decision of where a value can wrap, saturate or make debug and release builds disagree in the value path (fontbe/fontir/fontdrasil "
      "functions reachable from a job), and that each such place is bounded (recorded range argument), guarded, or a listed finding; a new "
      "unguarded narrowing is a violation. Boundary values and the two build profiles are exactly what tests do not sample: the suite runs "
      "unoptimised, where a wrapped value panics, while the shipped profile wraps silently. The 30 listed KNOWN findings are the unguarded "
      "saturating conversions of source-provided values (the reproduced advance 70000 -> 65535 family); the PaintColrLayers u8 wrap was repaired. "
      "(W-order) the only restructuring of the glyph-order job that keeps components (GlyphOp::MoveContoursToComponent) is chosen only after has_overflowing_component_transforms was tested (dominance; seeded); (CACHE) the guard that sends composites with out-of-range 2x2 transforms to the decomposition fallback reads summaries cached in ir::Glyph: every function that edits "
      "instances through Glyph::sources_mut() and composes transforms rebuilds the glyph through Glyph::new (found: flatten_glyph clamped 2.25x to 1.99994; repaired), every other "
      "caller is audited. "
      "NOT decided: conversions inside external crates (glyf coordinate rounding in write-fonts), shape preservation of fallbacks.",
      "Trusted: rustc MIR with overflow checks on; tables/e6_narrowing.json (verdict + reason per site group, keyed by function, kind and types "
      "with multiplicity); float `as` casts and write-fonts OtRound saturate. Findings are suppressed by exact key only.",
      "DESIGN.md section 5.4")


def main():
    commits = []
    try:
        out = subprocess.check_output(["git", "-C", "/repo", "log", "--format=%H %s"], text=True)
        for line in out.splitlines():
            h, s = line.split(" ", 1)
            if s.startswith("fix:"):
                commits.append(h)
    except Exception:
        pass
    m = {
        "version": 1,
        "setup_cmd": "./setup.sh",
        "hooks": {
            "guard": "fontc_verif",
            "enable": "no hooks are needed: every check analyses /repo's current source through a rustc_private driver injected with RUSTC_WORKSPACE_WRAPPER under `cargo +nightly check`; nothing in /repo is instrumented. source_commits lists only unguarded `fix:` repairs of genuine defects.",
            "baseline_off_cmd": "cd /repo && cargo nextest run --workspace --no-fail-fast --tool-config-file pb:/w/lib/nextest.toml --profile pb --test-threads 8 --offline",
            "source_commits": commits,
            "add_only": True,
        },
        "engines": [
            {"name": "driver", "path": "driver/", "serves_properties": sorted(CLAIMS), "kind_free_text": "rustc_private fact extractor: MIR-lite, ADTs, impls, statics, format specs per crate (no verdicts)"},
            {"name": "E1", "path": "rules/e1.py", "serves_properties": ["C02", "C01"], "kind_free_text": "job effects + forced happens-before (static analysis over MIR facts)"},
            {"name": "E2", "path": "rules/e2.py", "serves_properties": ["C01", "C18"], "kind_free_text": "hash-order taint analysis + nondeterminism who-may-call rules"},
            {"name": "E3", "path": "rules/e3.py", "serves_properties": ["C05", "C15"], "kind_free_text": "error discipline: type-resolved discard census"},
            {"name": "E6", "path": "rules/e6.py", "serves_properties": ["C19"], "kind_free_text": "narrowing census over the value path"},
            {"name": "E4", "path": "rules/e4.py", "serves_properties": ["C15", "C13"], "kind_free_text": "crash containment, recursion census with guard re-checks, include guard, unsafe census"},
            {"name": "E5", "path": "rules/e5.py", "serves_properties": ["C05", "C13", "C14", "C20"], "kind_free_text": "sibling agreement and layering rules (table assembly, file names, pipeline dominator, cursor ownership)"},
            {"name": "E7", "path": "rules/e7.py", "serves_properties": ["C13", "C15"], "kind_free_text": "token-consumption and assertion-feasibility dataflow over the fea-rs parser (abstract token-kind sets, context-sensitive summaries)"},
        ],
        "checks": [CLAIMS[k] for k in sorted(CLAIMS)],
        "notes": "Technique family: static analysis only. Every verdict is computed from /repo's current source (type-checked MIR via the driver, Cargo manifests); no check runs fontc, its tests, a fuzzer or a solver. exit 0 = held (KNOWN-FINDING lines for listed findings), exit 1 = VIOLATION lines, exit 2 = checker could not see the code. known_findings.json lists recorded findings and fixed defects.",
        "not_applicable": [{"property_id": k, "reason": v} for k, v in sorted(NOT_APPLICABLE.items()) if k not in CLAIMS],
    }
    # properties neither claimed nor N/A yet (engines still being built) are listed as not claimed yet
    for pid, why in PENDING.items():
        if pid not in CLAIMS:
            m["not_applicable"].append({"property_id": pid, "reason": why})
    m["not_applicable"].sort(key=lambda x: x["property_id"])
    with open(os.path.join(HERE, "MANIFEST.json"), "w") as f:
        json.dump(m, f, indent=1)
    print("claimed:", sorted(CLAIMS), "n/a:", [x["property_id"] for x in m["not_applicable"]])


PENDING = {
    "C01": "structural clauses (hash-order/nondeterminism taint) are planned in DESIGN.md section 4; the engine is not built yet, so the property is not claimed in this revision",
    "C05": "structural clauses (error discipline, table-assembly agreement) planned in DESIGN.md section 5; not claimed until the engine lands",
    "C13": "two structural clauses (include guard, cursor ownership) planned in DESIGN.md; not claimed until the engine lands",
    "C14": "structural clauses (file-name injectivity at variant level, lossy formatting) planned; not claimed until the engine lands",
    "C15": "structural clauses (crash containment, recursion census) planned; not claimed until the engine lands",
    "C18": "one clause (names independent of hash order) planned; not claimed until the engine lands",
    "C19": "narrowing census planned; not claimed until the engine lands",
    "C20": "one clause (single pipeline dominator) planned; not claimed until the engine lands",
}

if __name__ == "__main__":
    main()
