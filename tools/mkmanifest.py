#!/usr/bin/env python3
"""Regenerates /verif/MANIFEST.json from the claims below (single source of truth for the manifest)."""
import json
import os
import subprocess

HERE = os.path.dirname(os.path.dirname(os.path.abspath(__file__)))

NOT_APPLICABLE = {
    "C03": "equality of interpolated outlines with masters is a numeric statement about deltas, region scalars and rounding; no code-shape clause implies it (static analysis cannot bound the runtime values; a runtime test would be a different technique family)",
    "C04": "advances and MVAR metrics evaluated through variation stores: numeric, not visible in code shape",
    "C06": "glyph set/order/cmap contents are values computed from the source; the only shape-level facet (hash order of leftover glyphs) is covered under C01",
    "C07": "variation-model algebra (exact reproduction, region validity, permutation invariance) is numeric; static analysis could only restate the code",
    "C08": "agreement of two normalisation routes over all coordinates is piecewise-linear arithmetic; the unit-safety part is already enforced by typed coordinate spaces at compile time",
    "C09": "kerning values per pair/master through GPOS and variation store: numeric",
    "C10": "anchor coordinates per master through GPOS: numeric",
    "C11": "behavioural equivalence of compiled lookups with FEA semantics is a compiler-correctness statement over programs and glyph strings",
    "C12": "outline equality across component options is geometry over all transforms and locations",
    "C16": "region overlay equivalence at every point of design space: geometry",
    "C17": "summary fields vs recomputation from emitted tables: numeric",
}

CLAIMS = {}


def claim(pid, engine, technique, text, note, design_ref):
    CLAIMS[pid] = {
        "property_id": pid,
        "quick_cmd": f"./check {pid} --tier quick",
        "thorough_cmd": f"./check {pid} --tier thorough",
        "evidence_file": f"/verif/evidence/{pid}.json",
        "replay_cmd_template": f"./check {pid} --replay {{path}}",
        "engine": engine,
        "level_claimed": {"category": "other", "text": text, "design_ref": design_ref},
        "level_note": note,
        "technique": technique,
    }


claim("C02", "E1",
      "static analysis: MIR effect analysis of every Work impl + forced happens-before closure over the declared/rewritten dependency graph (rustc_private driver facts, call-graph reachability, dominators)",
      "Static decision, for all schedules at once, of the structural clauses of task-graph safety at job-type/variant granularity: declared-vs-actual "
      "effects of every job (R1, R2'), a forced order between every reader and every writer of every context slot including backend reads of the "
      "frontend context that the runtime ACL never checks (R2, R5, R6), the dynamic-job guard against the 647/655/1436 bug class (R3), "
      "Unknown/rewrite pairing (R4), counter-before-send in the worker closure in both build configurations (R7), main-thread reads (R8), and "
      "must-set vs panicking get() (R9). Tests see one interleaving per run; the scheduler is declarative, so whether the declarations force an "
      "order is visible in the code for every schedule. This is not a proof of the behaviour: instance-level ordering inside multi-instance "
      "variants is covered by audited exceptions with re-checked witnesses, and counter arithmetic ('completed twice') is not decided.",
      "Trusted: rustc nightly MIR/trait resolution, the fact extractor and python rules, scheduler semantics of can_run/is_dep_fulfilled taken as axioms, "
      "audited exception table tables/e1_exceptions.json (each entry has a machine-checked witness), crossbeam/rayon/parking_lot correctness. "
      "A violation names the job, slot, writer and the missing edge; exit 2 means the checker could not see the code (anchor/floor failure).",
      "DESIGN.md section 3")


def main():
    commits = []
    try:
        out = subprocess.check_output(["git", "-C", "/repo", "log", "--format=%H %s"], text=True)
        for line in out.splitlines():
            h, s = line.split(" ", 1)
            if s.startswith("fix:"):
                commits.append(h)
    except Exception:
        pass
    m = {
        "version": 1,
        "setup_cmd": "./setup.sh",
        "hooks": {
            "guard": "fontc_verif",
            "enable": "no hooks are needed: every check analyses /repo's current source through a rustc_private driver injected with RUSTC_WORKSPACE_WRAPPER under `cargo +nightly check`; nothing in /repo is instrumented. source_commits lists only unguarded `fix:` repairs of genuine defects.",
            "baseline_off_cmd": "cd /repo && cargo test --workspace --no-fail-fast --offline",
            "source_commits": commits,
            "add_only": True,
        },
        "engines": [
            {"name": "driver", "path": "driver/", "serves_properties": sorted(CLAIMS), "kind_free_text": "rustc_private fact extractor: MIR-lite, ADTs, impls, statics, format specs per crate (no verdicts)"},
            {"name": "E1", "path": "rules/e1.py", "serves_properties": ["C02", "C01"], "kind_free_text": "job effects + forced happens-before (static analysis over MIR facts)"},
        ],
        "checks": [CLAIMS[k] for k in sorted(CLAIMS)],
        "notes": "Technique family: static analysis only. Every verdict is computed from /repo's current source (type-checked MIR via the driver, Cargo manifests); no check runs fontc, its tests, a fuzzer or a solver. exit 0 = held (KNOWN-FINDING lines for listed findings), exit 1 = VIOLATION lines, exit 2 = checker could not see the code. known_findings.json lists recorded findings and fixed defects.",
        "not_applicable": [{"property_id": k, "reason": v} for k, v in sorted(NOT_APPLICABLE.items()) if k not in CLAIMS],
    }
    # properties neither claimed nor N/A yet (engines still being built) are listed as not claimed yet
    for pid, why in PENDING.items():
        if pid not in CLAIMS:
            m["not_applicable"].append({"property_id": pid, "reason": why})
    m["not_applicable"].sort(key=lambda x: x["property_id"])
    with open(os.path.join(HERE, "MANIFEST.json"), "w") as f:
        json.dump(m, f, indent=1)
    print("claimed:", sorted(CLAIMS), "n/a:", [x["property_id"] for x in m["not_applicable"]])


PENDING = {
    "C01": "structural clauses (hash-order/nondeterminism taint) are planned in DESIGN.md section 4; the engine is not built yet, so the property is not claimed in this revision",
    "C05": "structural clauses (error discipline, table-assembly agreement) planned in DESIGN.md section 5; not claimed until the engine lands",
    "C13": "two structural clauses (include guard, cursor ownership) planned in DESIGN.md; not claimed until the engine lands",
    "C14": "structural clauses (file-name injectivity at variant level, lossy formatting) planned; not claimed until the engine lands",
    "C15": "structural clauses (crash containment, recursion census) planned; not claimed until the engine lands",
    "C18": "one clause (names independent of hash order) planned; not claimed until the engine lands",
    "C19": "narrowing census planned; not claimed until the engine lands",
    "C20": "one clause (single pipeline dominator) planned; not claimed until the engine lands",
}

if __name__ == "__main__":
    main()
