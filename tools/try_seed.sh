#!/bin/bash
# usage: try_seed.sh <patch file> <property>...   -- applies the patch to /repo, runs the quick checks, restores /repo
P=$1; shift
git -C /repo apply "$P" || { echo "patch does not apply"; exit 2; }
for p in "$@"; do
  FONTC_VERIF_NO_EVIDENCE=1 /verif/check $p --tier quick 2>&1 | grep -a "VIOLATION\|CANNOT-SEE\|CHECKER\|^\[$p\]\|^\[[A-Z][0-9A-Za-z']*\]" | cut -c1-400
done
git -C /repo checkout -- .
git -C /repo status --short | head -3
