#!/bin/bash
# usage: confirm_seed.sh <worktree> <demo_cmd...>   -- runs the demo with the patch, then without (git stash), restores
W=$1; shift
cd "$W" || exit 2
export CARGO_TARGET_DIR=$W/target CARGO_NET_OFFLINE=true
echo "== with patch"; ( "$@" ) > $W/SEED/confirm_with.log 2>&1; echo "exit=$?" | tee -a $W/SEED/confirm_with.log
git stash -q -- . ':!SEED' 2>/dev/null || git stash -q
echo "== without patch"; ( "$@" ) > $W/SEED/confirm_without.log 2>&1; echo "exit=$?" | tee -a $W/SEED/confirm_without.log
git stash pop -q
git status --short | head -5
