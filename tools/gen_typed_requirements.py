#!/usr/bin/env python3
"""dev-time helper: read fea-rs/src/token_tree/typed.rs and list, for every accessor that unwraps the result of looking for a
child, the node kind it is defined on and the child kinds that satisfy it.  The output (tables/e7_typed.json) is the *reader side*
of rule G3; it was reviewed by reading typed.rs and is committed - the check itself never parses source text, it compares this
table with the must-emit sets computed from the parser's MIR and counts the unwrap sites per typed node (census floor)."""
import json, re, sys
src = open("/repo/fea-rs/src/token_tree/typed.rs").read()
kinds = dict(re.findall(r"ast_node!\((\w+),\s*Kind::(\w+)\)", src))
toks = dict(re.findall(r"ast_token!\((\w+),\s*Kind::(\w+)\)", src))
enums = {m.group(1): re.findall(r"\w+\((\w+)\)", m.group(2)) for m in re.finditer(r"ast_enum!\((\w+)\s*\{(.*?)\}\);", src, re.S)}


def castset(t, seen=()):
    if t in seen:
        return set()
    if t in kinds:
        return {kinds[t]}
    if t in toks:
        return {toks[t]}
    if t in enums:
        out = set()
        for m in enums[t]:
            out |= castset(m, seen + (t,))
        return out
    return set()


out = []
for m in re.finditer(r"impl (\w+) \{(.*?)\n\}\n", src, re.S):
    typ, body = m.group(1), m.group(2)
    if typ not in kinds:
        continue
    for f in re.finditer(r"fn (\w+)\(&self[^)]*\)\s*(?:->\s*([^{]+))?\{(.*?)\n    \}", body, re.S):
        name, fb = f.group(1), " ".join(f.group(3).split())
        if "unwrap()" not in fb and "expect(" not in fb:
            continue
        need = None
        mm = re.search(r"find_map\((\w+)::cast\)\s*\.(unwrap|expect)", fb)
        if mm:
            need = castset(mm.group(1))
        mm2 = re.search(r"find_token\(Kind::(\w+)\)\s*\.(unwrap|expect)", fb)
        if mm2:
            need = {mm2.group(1)}
        mm3 = re.search(r"nth\((\d+)\)\s*\.and_then\((\w+)::cast\)\s*\.unwrap", fb)
        if mm3:
            need = castset(mm3.group(2))
        mm4 = re.search(r"filter_map\((\w+)::cast\)\.nth\(\d+\)\.unwrap", fb)
        if mm4:
            need = castset(mm4.group(1))
        if "GlyphNameOrRange" not in (need or set()) and need and "GlyphName" in need:
            need = set(need) | {"GlyphNameOrRange", "GlyphRange"}   # AstSink::validate_token resolves it to a name or a range node
        out.append({"type": typ, "node": kinds[typ], "accessor": name, "need": sorted(need) if need else None})
json.dump({"accessors": out}, open("/verif/tables/e7_typed.json", "w"), indent=1)
print(len(out), "accessors;", sum(1 for o in out if o["need"]), "with a derived requirement")
