#!/bin/bash
# usage: confirm_seed2.sh <seed id>  -- runs SEED/demo.sh with the patch applied, then with it reversed (git apply -R), then re-applies it
W=/tmp/seed/$1
cd "$W" || exit 2
export CARGO_TARGET_DIR=$W/target CARGO_NET_OFFLINE=true
git diff --quiet -- . ':!SEED' && git apply SEED/patch.diff
bash SEED/demo.sh > SEED/confirm_with.log 2>&1; echo "exit=$?" >> SEED/confirm_with.log
git apply -R SEED/patch.diff || { echo "cannot reverse" ; exit 2; }
bash SEED/demo.sh > SEED/confirm_without.log 2>&1; echo "exit=$?" >> SEED/confirm_without.log
git apply SEED/patch.diff
echo "$1 with: $(tail -1 SEED/confirm_with.log) without: $(tail -1 SEED/confirm_without.log)"
