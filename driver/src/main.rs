//! Fact extractor for the fontc static verification harness.
//!
//! Runs as RUSTC_WORKSPACE_WRAPPER: argv[1] is the real rustc (dropped), the rest
//! is the rustc command line.  After analysis it dumps, for the crate being
//! compiled, one JSONL file (single write) into $FONTC_FACTS_DIR holding
//! MIR-lite for every body, ADT/impl/static tables and format-spec facts.
//! No verdicts are computed here; all rules live in /verif/rules (python).
#![feature(rustc_private)]
#![allow(clippy::all)]

extern crate rustc_abi;
extern crate rustc_ast;
extern crate rustc_driver;
extern crate rustc_hir;
extern crate rustc_interface;
extern crate rustc_middle;
extern crate rustc_session;
extern crate rustc_span;

use rustc_driver::Compilation;
use rustc_hir::def::DefKind;
use rustc_hir::def_id::{DefId, LocalDefId};
use rustc_middle::mir::{
    self, AggregateKind, BasicBlock, Body, BorrowKind, CastKind, Const, Operand, Place,
    ProjectionElem, Rvalue, StatementKind, TerminatorKind,
};
use rustc_middle::ty::print::{with_crate_prefix, with_no_trimmed_paths};
use rustc_middle::ty::{self, Instance, Ty, TyCtxt, TypeVisitableExt, TypingEnv};
use rustc_span::Span;
use std::fmt::Write as _;

struct Cb {
    fmt_facts: Vec<String>,
}

fn esc(s: &str, out: &mut String) {
    out.push('"');
    for c in s.chars() {
        match c {
            '"' => out.push_str("\\\""),
            '\\' => out.push_str("\\\\"),
            '\n' => out.push_str("\\n"),
            '\r' => out.push_str("\\r"),
            '\t' => out.push_str("\\t"),
            c if (c as u32) < 0x20 => {
                let _ = write!(out, "\\u{:04x}", c as u32);
            }
            c => out.push(c),
        }
    }
    out.push('"');
}

fn js(s: &str) -> String {
    let mut o = String::with_capacity(s.len() + 2);
    esc(s, &mut o);
    o
}

fn crate_label(tcx: TyCtxt<'_>, krate: rustc_hir::def_id::CrateNum) -> String {
    let name = tcx.crate_name(krate).to_string();
    if krate == rustc_hir::def_id::LOCAL_CRATE {
        let is_bin = tcx
            .crate_types()
            .iter()
            .any(|t| matches!(t, rustc_session::config::CrateType::Executable));
        if is_bin {
            return format!("{name}[bin]");
        }
    }
    name
}

fn key(tcx: TyCtxt<'_>, d: DefId) -> String {
    format!(
        "{}{}",
        crate_label(tcx, d.krate),
        tcx.def_path(d).to_string_no_crate_verbose()
    )
}

thread_local! {
    static CRATE_PREFIX: std::cell::RefCell<String> = std::cell::RefCell::new(String::new());
}

/// Fully qualified printing: local items get the crate's name as prefix so that
/// type strings are comparable across crates.
fn fq(s: String) -> String {
    if s.contains("crate::") {
        CRATE_PREFIX.with(|p| s.replace("crate::", &format!("{}::", p.borrow())))
    } else {
        s
    }
}

fn tystr(t: Ty<'_>) -> String {
    fq(with_crate_prefix!(with_no_trimmed_paths!(t.to_string())))
}

fn span_str(tcx: TyCtxt<'_>, sp: Span) -> (String, bool) {
    let exp = sp.from_expansion();
    let sp2 = sp.source_callsite();
    let sm = tcx.sess.source_map();
    let lo = sm.lookup_char_pos(sp2.lo());
    let fname = match &lo.file.name {
        rustc_span::FileName::Real(r) => match r.local_path() {
            Some(p) => p.display().to_string(),
            None => format!("{:?}", lo.file.name),
        },
        other => format!("{:?}", other),
    };
    (format!("{}:{}", fname, lo.line), exp)
}

fn line_of(tcx: TyCtxt<'_>, sp: Span) -> u32 {
    let sp2 = sp.source_callsite();
    let sm = tcx.sess.source_map();
    sm.lookup_char_pos(sp2.lo()).line as u32
}

struct BodyCx<'a, 'tcx> {
    tcx: TyCtxt<'tcx>,
    body: &'a Body<'tcx>,
    owner: DefId,
}

impl<'a, 'tcx> BodyCx<'a, 'tcx> {
    fn place(&self, p: &Place<'tcx>) -> String {
        // ["_n", proj...]
        let mut o = String::new();
        let _ = write!(o, "[{}", p.local.as_u32());
        for (base, elem) in p.iter_projections() {
            o.push(',');
            match elem {
                ProjectionElem::Deref => o.push_str("\"*\""),
                ProjectionElem::Field(f, _) => {
                    let bty = base.ty(self.body, self.tcx);
                    let mut name = format!("{}", f.as_u32());
                    let mut adt = String::new();
                    if let ty::Adt(def, _) = bty.ty.kind() {
                        let v = match bty.variant_index {
                            Some(vi) => Some(def.variant(vi)),
                            None => {
                                if def.is_enum() {
                                    None
                                } else {
                                    Some(def.non_enum_variant())
                                }
                            }
                        };
                        if let Some(v) = v {
                            if let Some(fd) = v.fields.get(f) {
                                name = fd.name.to_string();
                            }
                        }
                        adt = key(self.tcx, def.did());
                    } else if let ty::Closure(..) = bty.ty.kind() {
                        adt = "{closure}".to_string();
                    }
                    esc(&format!("f:{}:{}", name, adt), &mut o);
                }
                ProjectionElem::Index(_) => o.push_str("\"i\""),
                ProjectionElem::ConstantIndex { .. } => o.push_str("\"ci\""),
                ProjectionElem::Subslice { .. } => o.push_str("\"ss\""),
                ProjectionElem::Downcast(name, vi) => {
                    let n = name.map(|s| s.to_string()).unwrap_or_else(|| format!("{}", vi.as_u32()));
                    esc(&format!("d:{}", n), &mut o);
                }
                ProjectionElem::OpaqueCast(_) => o.push_str("\"oc\""),
                ProjectionElem::UnwrapUnsafeBinder(_) => o.push_str("\"ub\""),
            }
        }
        o.push(']');
        o
    }

    fn fn_ref(&self, def: DefId, args: ty::GenericArgsRef<'tcx>) -> String {
        // {"fn":key,"ga":[..],"res":key|null,"virt":bool,"trait":key|null}
        let tcx = self.tcx;
        let mut o = String::new();
        let _ = write!(o, "{{\"fn\":{}", js(&key(tcx, def)));
        o.push_str(",\"ga\":[");
        let mut first = true;
        for a in args.iter() {
            if !first {
                o.push(',');
            }
            first = false;
            let s = fq(with_crate_prefix!(with_no_trimmed_paths!(a.to_string())));
            esc(&s, &mut o);
        }
        o.push(']');
        let mut res: Option<DefId> = None;
        let mut virt = false;
        let mut resolved_args: Option<String> = None;
        let env = TypingEnv::post_analysis(tcx, self.owner);
        // try_resolve can ICE on args with escaping bound vars; guard
        let has_escaping = args.iter().any(|a| a.has_escaping_bound_vars());
        if !has_escaping {
            match Instance::try_resolve(tcx, env, def, args) {
                Ok(Some(inst)) => {
                    match inst.def {
                        ty::InstanceKind::Virtual(d, _) => {
                            virt = true;
                            res = Some(d);
                        }
                        _ => {
                            res = Some(inst.def_id());
                        }
                    }
                    if let Some(first) = inst.args.iter().next() {
                        resolved_args = Some(fq(with_crate_prefix!(with_no_trimmed_paths!(first.to_string()))));
                    }
                }
                _ => {}
            }
        }
        match res {
            Some(d) => {
                let _ = write!(o, ",\"res\":{}", js(&key(tcx, d)));
            }
            None => o.push_str(",\"res\":null"),
        }
        let _ = write!(o, ",\"virt\":{}", virt);
        if let Some(tr) = tcx.trait_of_assoc(def) {
            let _ = write!(o, ",\"trait\":{}", js(&key(tcx, tr)));
        }
        if let Some(ra) = resolved_args {
            let _ = write!(o, ",\"ra0\":{}", js(&ra));
        }
        o.push('}');
        o
    }

    fn constant(&self, c: &Const<'tcx>) -> String {
        let tcx = self.tcx;
        let ty = c.ty();
        let mut o = String::new();
        o.push_str("{\"k\":");
        if let ty::FnDef(def, args) = ty.kind() {
            o.push_str(&self.fn_ref(*def, args));
            o.push('}');
            return o;
        }
        let _ = write!(o, "{{\"ty\":{}", js(&tystr(ty)));
        match c {
            Const::Unevaluated(uv, _) => {
                let _ = write!(o, ",\"uneval\":{}", js(&key(tcx, uv.def)));
                if let Some(p) = uv.promoted {
                    let _ = write!(o, ",\"promoted\":{}", p.as_u32());
                } else if uv.args.is_empty() && (ty.is_integral() || ty.is_bool()) {
                    // named integer constant (array sizes, lookahead limits): evaluate it
                    if let Ok(rustc_middle::mir::ConstValue::Scalar(sc)) = tcx.const_eval_poly(uv.def) {
                        if let Ok(si) = sc.try_to_scalar_int() {
                            let size = si.size();
                            let bits = si.to_bits(size);
                            if ty.is_signed() {
                                let v = size.sign_extend(bits) as i128;
                                let _ = write!(o, ",\"int\":{}", js(&v.to_string()));
                            } else {
                                let _ = write!(o, ",\"int\":{}", js(&bits.to_string()));
                            }
                        }
                    }
                } else if uv.args.is_empty() && matches!(ty.kind(), ty::Adt(..)) {
                    // named constant of a scalar newtype (bit sets): evaluate it
                    if let Ok(rustc_middle::mir::ConstValue::Scalar(sc)) = tcx.const_eval_poly(uv.def) {
                        if let Ok(si) = sc.try_to_scalar_int() {
                            let bits = si.to_bits(si.size());
                            let _ = write!(o, ",\"scalar\":{}", js(&bits.to_string()));
                        }
                    }
                }
            }
            _ => {}
        }
        if let Const::Val(cv, _) = c {
            if let ty::Ref(_, inner, _) = ty.kind() {
                if inner.is_str() {
                    if let Some(bytes) = cv.try_get_slice_bytes_for_diagnostics(tcx) {
                        if bytes.len() <= 256 {
                            let _ = write!(o, ",\"str\":{}", js(&String::from_utf8_lossy(bytes)));
                        }
                    }
                } else if let ty::Array(el, _) = inner.kind() {
                    // byte string literal b"..": &[u8; N]
                    if *el == tcx.types.u8 {
                        if let rustc_middle::mir::ConstValue::Scalar(rustc_middle::mir::interpret::Scalar::Ptr(ptr, _)) = cv {
                            let (prov, off) = ptr.prov_and_relative_offset();
                            if let Some(rustc_middle::mir::interpret::GlobalAlloc::Memory(alloc)) = tcx.try_get_global_alloc(prov.alloc_id()) {
                                let a = alloc.inner();
                                let start = off.bytes() as usize;
                                if start <= a.len() && a.len() - start <= 256 {
                                    let bytes = a.inspect_with_uninit_and_ptr_outside_interpreter(start..a.len());
                                    let _ = write!(o, ",\"bstr\":{}", js(&String::from_utf8_lossy(bytes)));
                                }
                            }
                        }
                    }
                }
            }
        }
        if ty.is_integral() || ty.is_bool() || ty.is_char() {
            if let Some(si) = c.try_to_scalar_int() {
                let size = si.size();
                let bits = si.to_bits(size);
                if ty.is_signed() {
                    let v = size.sign_extend(bits) as i128;
                    let _ = write!(o, ",\"int\":{}", js(&v.to_string()));
                } else {
                    let _ = write!(o, ",\"int\":{}", js(&bits.to_string()));
                }
            }
        } else if ty.is_floating_point() {
            if let Some(si) = c.try_to_scalar_int() {
                let size = si.size();
                let bits = si.to_bits(size);
                let v: f64 = if size.bytes() == 4 {
                    f32::from_bits(bits as u32) as f64
                } else if size.bytes() == 8 {
                    f64::from_bits(bits as u64)
                } else {
                    f64::NAN
                };
                let _ = write!(o, ",\"float\":{}", js(&format!("{:?}", v)));
            }
        }
        o.push_str("}}");
        o
    }

    fn operand(&self, op: &Operand<'tcx>) -> String {
        match op {
            Operand::Copy(p) => format!("{{\"c\":{}}}", self.place(p)),
            Operand::Move(p) => format!("{{\"m\":{}}}", self.place(p)),
            Operand::Constant(c) => self.constant(&c.const_),
            #[allow(unreachable_patterns)]
            _ => "{\"x\":1}".to_string(),
        }
    }

    fn ops<'b, I: Iterator<Item = &'b Operand<'tcx>>>(&self, it: I) -> String
    where
        'tcx: 'b,
    {
        let mut o = String::from("[");
        let mut first = true;
        for x in it {
            if !first {
                o.push(',');
            }
            first = false;
            o.push_str(&self.operand(x));
        }
        o.push(']');
        o
    }

    fn rvalue(&self, rv: &Rvalue<'tcx>) -> String {
        let tcx = self.tcx;
        match rv {
            Rvalue::Use(op, ..) => format!("{{\"r\":\"use\",\"o\":[{}]}}", self.operand(op)),
            Rvalue::Repeat(op, _) => format!("{{\"r\":\"repeat\",\"o\":[{}]}}", self.operand(op)),
            Rvalue::Ref(_, bk, p) => {
                let k = match bk {
                    BorrowKind::Shared => "shared",
                    BorrowKind::Fake(_) => "fake",
                    BorrowKind::Mut { .. } => "mut",
                };
                format!("{{\"r\":\"ref\",\"bk\":\"{}\",\"p\":{}}}", k, self.place(p))
            }
            Rvalue::ThreadLocalRef(d) => {
                format!("{{\"r\":\"tls\",\"def\":{}}}", js(&key(tcx, *d)))
            }
            Rvalue::RawPtr(_, p) => format!("{{\"r\":\"rawptr\",\"p\":{}}}", self.place(p)),
            Rvalue::Cast(kind, op, to) => {
                let from = op.ty(self.body, tcx);
                let k = match kind {
                    CastKind::PointerCoercion(pc, _) => format!("PointerCoercion({:?})", pc),
                    other => format!("{:?}", other),
                };
                format!(
                    "{{\"r\":\"cast\",\"ck\":{},\"from\":{},\"to\":{},\"o\":[{}]}}",
                    js(&k),
                    js(&tystr(from)),
                    js(&tystr(*to)),
                    self.operand(op)
                )
            }
            Rvalue::BinaryOp(op, b) => {
                let (l, r) = &**b;
                let lty = l.ty(self.body, tcx);
                format!(
                    "{{\"r\":\"bin\",\"op\":\"{:?}\",\"lty\":{},\"o\":[{},{}]}}",
                    op,
                    js(&tystr(lty)),
                    self.operand(l),
                    self.operand(r)
                )
            }
            Rvalue::UnaryOp(op, a) => {
                format!("{{\"r\":\"un\",\"op\":\"{:?}\",\"o\":[{}]}}", op, self.operand(a))
            }
            Rvalue::Discriminant(p) => format!("{{\"r\":\"discr\",\"p\":{}}}", self.place(p)),
            Rvalue::Aggregate(kind, fields) => {
                let ops = self.ops(fields.iter());
                match &**kind {
                    AggregateKind::Adt(def, vi, _, _, _) => {
                        let adt = tcx.adt_def(*def);
                        let vname = adt.variant(*vi).name.to_string();
                        // field names (needed for ADTs of external crates, which have no adt fact)
                        let mut fnames = String::from("[");
                        if !def.is_local() {
                            for (i, f) in adt.variant(*vi).fields.iter().enumerate() {
                                if i > 0 {
                                    fnames.push(',');
                                }
                                esc(&f.name.to_string(), &mut fnames);
                            }
                        }
                        fnames.push(']');
                        format!(
                            "{{\"r\":\"agg\",\"ak\":\"adt\",\"adt\":{},\"v\":{},\"fn\":{},\"o\":{}}}",
                            js(&key(tcx, *def)),
                            js(&vname),
                            fnames,
                            ops
                        )
                    }
                    AggregateKind::Closure(def, _) => format!(
                        "{{\"r\":\"agg\",\"ak\":\"closure\",\"def\":{},\"o\":{}}}",
                        js(&key(tcx, *def)),
                        ops
                    ),
                    AggregateKind::Coroutine(def, _) | AggregateKind::CoroutineClosure(def, _) => {
                        format!(
                            "{{\"r\":\"agg\",\"ak\":\"closure\",\"def\":{},\"o\":{}}}",
                            js(&key(tcx, *def)),
                            ops
                        )
                    }
                    AggregateKind::Array(_) => format!("{{\"r\":\"agg\",\"ak\":\"array\",\"o\":{}}}", ops),
                    AggregateKind::Tuple => format!("{{\"r\":\"agg\",\"ak\":\"tuple\",\"o\":{}}}", ops),
                    AggregateKind::RawPtr(..) => format!("{{\"r\":\"agg\",\"ak\":\"rawptr\",\"o\":{}}}", ops),
                }
            }
            Rvalue::CopyForDeref(p) => format!("{{\"r\":\"use\",\"o\":[{{\"c\":{}}}]}}", self.place(p)),
            Rvalue::WrapUnsafeBinder(op, _) => format!("{{\"r\":\"use\",\"o\":[{}]}}", self.operand(op)),
            #[allow(unreachable_patterns)]
            other => format!("{{\"r\":\"other\",\"dbg\":{}}}", js(&format!("{:?}", other).chars().take(60).collect::<String>())),
        }
    }

    fn bb(&self, b: BasicBlock) -> u32 {
        b.as_u32()
    }

    fn terminator(&self, t: &mir::Terminator<'tcx>) -> String {
        let tcx = self.tcx;
        let ln = line_of(tcx, t.source_info.span);
        let exp = t.source_info.span.from_expansion();
        let head = format!("\"l\":{},\"x\":{}", ln, exp as u8);
        match &t.kind {
            TerminatorKind::Goto { target } => format!("{{\"t\":\"goto\",\"to\":[{}],{}}}", self.bb(*target), head),
            TerminatorKind::SwitchInt { discr, targets } => {
                let mut vals = String::from("[");
                let mut tg = String::from("[");
                let mut first = true;
                for (v, b) in targets.iter() {
                    if !first {
                        vals.push(',');
                        tg.push(',');
                    }
                    first = false;
                    let _ = write!(vals, "\"{}\"", v);
                    let _ = write!(tg, "{}", self.bb(b));
                }
                if !first {
                    tg.push(',');
                }
                let _ = write!(tg, "{}", self.bb(targets.otherwise()));
                vals.push(']');
                tg.push(']');
                let dty = discr.ty(self.body, tcx);
                format!(
                    "{{\"t\":\"sw\",\"o\":{},\"oty\":{},\"v\":{},\"to\":{},{}}}",
                    self.operand(discr),
                    js(&tystr(dty)),
                    vals,
                    tg,
                    head
                )
            }
            TerminatorKind::Return => format!("{{\"t\":\"ret\",\"to\":[],{}}}", head),
            TerminatorKind::Unreachable => format!("{{\"t\":\"unreachable\",\"to\":[],{}}}", head),
            TerminatorKind::UnwindResume => format!("{{\"t\":\"resume\",\"to\":[],{}}}", head),
            TerminatorKind::UnwindTerminate(_) => format!("{{\"t\":\"terminate\",\"to\":[],{}}}", head),
            TerminatorKind::Drop { place, target, unwind, .. } => {
                let u = match unwind {
                    mir::UnwindAction::Cleanup(b) => format!("{}", self.bb(*b)),
                    _ => "null".to_string(),
                };
                format!(
                    "{{\"t\":\"drop\",\"p\":{},\"to\":[{}],\"u\":{},{}}}",
                    self.place(place),
                    self.bb(*target),
                    u,
                    head
                )
            }
            TerminatorKind::Call { func, args, destination, target, unwind, .. } => {
                let f = self.operand(func);
                let a = self.ops(args.iter().map(|s| &s.node));
                let to = match target {
                    Some(b) => format!("[{}]", self.bb(*b)),
                    None => "[]".to_string(),
                };
                let u = match unwind {
                    mir::UnwindAction::Cleanup(b) => format!("{}", self.bb(*b)),
                    _ => "null".to_string(),
                };
                let dty = destination.ty(self.body, tcx).ty;
                format!(
                    "{{\"t\":\"call\",\"f\":{},\"a\":{},\"d\":{},\"dty\":{},\"to\":{},\"u\":{},{}}}",
                    f,
                    a,
                    self.place(destination),
                    js(&tystr(dty)),
                    to,
                    u,
                    head
                )
            }
            TerminatorKind::TailCall { func, args, .. } => {
                let f = self.operand(func);
                let a = self.ops(args.iter().map(|s| &s.node));
                format!("{{\"t\":\"call\",\"f\":{},\"a\":{},\"d\":[0],\"dty\":\"?\",\"to\":[],\"u\":null,{}}}", f, a, head)
            }
            TerminatorKind::Assert { cond, expected, msg, target, .. } => {
                use rustc_middle::mir::AssertKind;
                let (ak, ty, extra) = match &**msg {
                    AssertKind::Overflow(op, l, r) => (
                        format!("Overflow({:?})", op),
                        tystr(l.ty(self.body, tcx)),
                        format!("[{},{}]", self.operand(l), self.operand(r)),
                    ),
                    AssertKind::OverflowNeg(o) => (
                        "OverflowNeg".to_string(),
                        tystr(o.ty(self.body, tcx)),
                        format!("[{}]", self.operand(o)),
                    ),
                    AssertKind::DivisionByZero(o) => (
                        "DivisionByZero".to_string(),
                        tystr(o.ty(self.body, tcx)),
                        format!("[{}]", self.operand(o)),
                    ),
                    AssertKind::RemainderByZero(o) => (
                        "RemainderByZero".to_string(),
                        tystr(o.ty(self.body, tcx)),
                        format!("[{}]", self.operand(o)),
                    ),
                    AssertKind::BoundsCheck { len, index } => (
                        "BoundsCheck".to_string(),
                        String::new(),
                        format!("[{},{}]", self.operand(len), self.operand(index)),
                    ),
                    other => {
                        let s = format!("{:?}", other);
                        (s.split('(').next().unwrap_or("Other").split(' ').next().unwrap_or("Other").to_string(), String::new(), "[]".to_string())
                    }
                };
                format!(
                    "{{\"t\":\"assert\",\"ak\":{},\"ty\":{},\"o\":{},\"cond\":{},\"exp\":{},\"to\":[{}],{}}}",
                    js(&ak),
                    js(&ty),
                    extra,
                    self.operand(cond),
                    expected,
                    self.bb(*target),
                    head
                )
            }
            TerminatorKind::FalseEdge { real_target, .. } => {
                format!("{{\"t\":\"goto\",\"to\":[{}],{}}}", self.bb(*real_target), head)
            }
            TerminatorKind::FalseUnwind { real_target, .. } => {
                format!("{{\"t\":\"goto\",\"to\":[{}],{}}}", self.bb(*real_target), head)
            }
            TerminatorKind::Yield { resume, .. } => {
                format!("{{\"t\":\"goto\",\"to\":[{}],{}}}", self.bb(*resume), head)
            }
            TerminatorKind::CoroutineDrop => format!("{{\"t\":\"ret\",\"to\":[],{}}}", head),
            TerminatorKind::InlineAsm { targets, .. } => {
                let tg: Vec<String> = targets.iter().map(|b| format!("{}", self.bb(*b))).collect();
                format!("{{\"t\":\"asm\",\"to\":[{}],{}}}", tg.join(","), head)
            }
        }
    }

    fn dump(&self, key_s: &str, extra: &str) -> String {
        let tcx = self.tcx;
        let body = self.body;
        let mut o = String::with_capacity(4096);
        let _ = write!(o, "{{\"k\":\"body\",\"key\":{}{}", js(key_s), extra);
        let _ = write!(o, ",\"argc\":{}", body.arg_count);
        o.push_str(",\"locals\":[");
        for (i, l) in body.local_decls.iter().enumerate() {
            if i > 0 {
                o.push(',');
            }
            esc(&tystr(l.ty), &mut o);
        }
        o.push_str("],\"names\":{");
        let mut first = true;
        for vdi in body.var_debug_info.iter() {
            if let mir::VarDebugInfoContents::Place(p) = &vdi.value {
                if p.projection.is_empty() {
                    if !first {
                        o.push(',');
                    }
                    first = false;
                    let _ = write!(o, "\"{}\":{}", p.local.as_u32(), js(&vdi.name.to_string()));
                }
            }
        }
        // closure upvar names (captured by closure bodies)
        o.push_str("},\"upvars\":[");
        let mut firstu = true;
        for vdi in body.var_debug_info.iter() {
            if let mir::VarDebugInfoContents::Place(p) = &vdi.value {
                if !p.projection.is_empty() && p.local.as_u32() == 1 {
                    if !firstu {
                        o.push(',');
                    }
                    firstu = false;
                    let _ = write!(o, "[{},{}]", js(&vdi.name.to_string()), self.place(p));
                }
            }
        }
        o.push_str("],\"blocks\":[");
        for (bi, bb) in body.basic_blocks.iter().enumerate() {
            if bi > 0 {
                o.push(',');
            }
            let _ = write!(o, "{{\"cl\":{},\"s\":[", bb.is_cleanup as u8);
            let mut firsts = true;
            for st in bb.statements.iter() {
                let s = match &st.kind {
                    StatementKind::Assign(b) => {
                        let (p, rv) = &**b;
                        Some(format!(
                            "{{\"l\":{},\"x\":{},\"d\":{},\"rv\":{}}}",
                            line_of(tcx, st.source_info.span),
                            st.source_info.span.from_expansion() as u8,
                            self.place(p),
                            self.rvalue(rv)
                        ))
                    }
                    StatementKind::SetDiscriminant { place, variant_index } => Some(format!(
                        "{{\"l\":{},\"x\":0,\"d\":{},\"rv\":{{\"r\":\"setdiscr\",\"v\":{}}}}}",
                        line_of(tcx, st.source_info.span),
                        self.place(place),
                        variant_index.as_u32()
                    )),
                    _ => None,
                };
                if let Some(s) = s {
                    if !firsts {
                        o.push(',');
                    }
                    firsts = false;
                    o.push_str(&s);
                }
            }
            o.push_str("],\"t\":");
            match &bb.terminator {
                Some(t) => o.push_str(&self.terminator(t)),
                None => o.push_str("{\"t\":\"none\",\"to\":[]}"),
            }
            o.push('}');
        }
        o.push_str("]}");
        o
    }
}

fn body_extra<'tcx>(tcx: TyCtxt<'tcx>, ld: LocalDefId) -> String {
    let d = ld.to_def_id();
    let dk = tcx.def_kind(d);
    let mut o = String::new();
    let _ = write!(o, ",\"dk\":{}", js(&format!("{:?}", dk)));
    let (sp, exp) = span_str(tcx, tcx.def_span(d));
    let _ = write!(o, ",\"span\":{},\"exp\":{}", js(&sp), exp);
    if matches!(dk, DefKind::Fn | DefKind::AssocFn) {
        let vis = tcx.visibility(d);
        let _ = write!(o, ",\"pub\":{}", vis.is_public());
        let sig = tcx.fn_sig(d).instantiate_identity().skip_norm_wip();
        let out = sig.output().skip_binder();
        let _ = write!(o, ",\"ret\":{}", js(&tystr(out)));
    }
    if matches!(dk, DefKind::AssocFn | DefKind::AssocConst { .. } | DefKind::AssocTy) {
        if let Some(imp) = tcx.impl_of_assoc(d) {
            let self_ty = tcx.type_of(imp).instantiate_identity().skip_norm_wip();
            let _ = write!(o, ",\"impl_self\":{}", js(&tystr(self_ty)));
            if let Some(tr) = tcx.impl_opt_trait_ref(imp) {
                let tr = tr.skip_binder();
                let _ = write!(o, ",\"impl_trait\":{}", js(&key(tcx, tr.def_id)));
                let _ = write!(o, ",\"impl_trait_ref\":{}", js(&fq(with_crate_prefix!(with_no_trimmed_paths!(tr.to_string())))));
            }
            if let Some(ai) = tcx.opt_associated_item(d) {
                if let Some(ti) = ai.trait_item_def_id() {
                    let _ = write!(o, ",\"trait_item\":{}", js(&key(tcx, ti)));
                }
            }
        } else if let Some(tr) = tcx.trait_of_assoc(d) {
            let _ = write!(o, ",\"in_trait\":{}", js(&key(tcx, tr)));
        }
    }
    if matches!(dk, DefKind::Closure) {
        let parent = tcx.typeck_root_def_id(d);
        let _ = write!(o, ",\"root\":{}", js(&key(tcx, parent)));
        let p = tcx.parent(d);
        let _ = write!(o, ",\"parent\":{}", js(&key(tcx, p)));
    }
    // attributes of interest: cfg(test) can't appear (not compiled); record #[test]-like? skip.
    o
}

fn dump_adts<'tcx>(tcx: TyCtxt<'tcx>, out: &mut String) {
    for id in tcx.hir_free_items() {
        let d = id.owner_id.to_def_id();
        let dk = tcx.def_kind(d);
        match dk {
            DefKind::Struct | DefKind::Enum | DefKind::Union => {
                let adt = tcx.adt_def(d);
                let (sp, _) = span_str(tcx, tcx.def_span(d));
                let _ = write!(out, "{{\"k\":\"adt\",\"key\":{},\"kind\":{},\"span\":{},\"variants\":[", js(&key(tcx, d)), js(&format!("{:?}", dk)), js(&sp));
                for (vi, v) in adt.variants().iter().enumerate() {
                    if vi > 0 {
                        out.push(',');
                    }
                    let _ = write!(out, "{{\"name\":{},\"idx\":{},\"fields\":[", js(&v.name.to_string()), vi);
                    for (fi, f) in v.fields.iter().enumerate() {
                        if fi > 0 {
                            out.push(',');
                        }
                        let fty = tcx.type_of(f.did).instantiate_identity().skip_norm_wip();
                        let mut attrs: Vec<String> = Vec::new();
                        if let Some(ldid) = f.did.as_local() {
                            let hid = tcx.local_def_id_to_hir_id(ldid);
                            for a in tcx.hir_attrs(hid) {
                                let s = format!("{:?}", a);
                                if s.contains("serde") {
                                    // keep the textual form from the source span: robust against Debug format
                                    let sm = tcx.sess.source_map();
                                    let txt = sm.span_to_snippet(a.span()).unwrap_or(s);
                                    attrs.push(txt);
                                }
                            }
                        }
                        let _ = write!(out, "{{\"name\":{},\"ty\":{},\"attrs\":[", js(&f.name.to_string()), js(&tystr(fty)));
                        for (ai, a) in attrs.iter().enumerate() {
                            if ai > 0 {
                                out.push(',');
                            }
                            esc(a, out);
                        }
                        out.push_str("]}");
                    }
                    out.push_str("]}");
                }
                out.push_str("]}\n");
            }
            DefKind::Static { mutability, .. } => {
                let ty = tcx.type_of(d).instantiate_identity().skip_norm_wip();
                let (sp, exp) = span_str(tcx, tcx.def_span(d));
                let freeze = ty.is_freeze(tcx, TypingEnv::post_analysis(tcx, d));
                let _ = write!(
                    out,
                    "{{\"k\":\"static\",\"key\":{},\"ty\":{},\"mut\":{},\"freeze\":{},\"span\":{},\"exp\":{}}}\n",
                    js(&key(tcx, d)),
                    js(&tystr(ty)),
                    mutability.is_mut(),
                    freeze,
                    js(&sp),
                    exp
                );
            }
            DefKind::Impl { of_trait } => {
                let self_ty = tcx.type_of(d).instantiate_identity().skip_norm_wip();
                let mut tr_s = String::from("null");
                let mut tr_ref = String::from("null");
                if of_trait {
                    if let Some(tr) = tcx.impl_opt_trait_ref(d) {
                        let tr = tr.skip_binder();
                        tr_s = js(&key(tcx, tr.def_id));
                        tr_ref = js(&fq(with_crate_prefix!(with_no_trimmed_paths!(tr.to_string()))));
                    }
                }
                let (sp, exp) = span_str(tcx, tcx.def_span(d));
                let _ = write!(
                    out,
                    "{{\"k\":\"impl\",\"key\":{},\"self\":{},\"trait\":{},\"trait_ref\":{},\"span\":{},\"exp\":{},\"items\":[",
                    js(&key(tcx, d)),
                    js(&tystr(self_ty)),
                    tr_s,
                    tr_ref,
                    js(&sp),
                    exp
                );
                let mut first = true;
                for ai in tcx.associated_items(d).in_definition_order() {
                    if !first {
                        out.push(',');
                    }
                    first = false;
                    let ti = ai.trait_item_def_id().map(|t| js(&key(tcx, t))).unwrap_or_else(|| "null".to_string());
                    let _ = write!(out, "[{},{}]", js(&key(tcx, ai.def_id)), ti);
                }
                out.push_str("]}\n");
            }
            DefKind::Trait => {
                let _ = write!(out, "{{\"k\":\"trait\",\"key\":{},\"items\":[", js(&key(tcx, d)));
                let mut first = true;
                for ai in tcx.associated_items(d).in_definition_order() {
                    if !first {
                        out.push(',');
                    }
                    first = false;
                    let has_default = ai.defaultness(tcx).has_value();
                    let _ = write!(out, "[{},{}]", js(&key(tcx, ai.def_id)), has_default);
                }
                out.push_str("]}\n");
            }
            _ => {}
        }
    }
}

// ---- AST pass: format specs with precision/width inside functions (for P2) ----
mod fmtscan {
    use rustc_ast::visit::{self, Visitor};
    use rustc_ast::{self as ast};

    pub struct V<'a> {
        pub stack: Vec<String>,
        pub out: &'a mut Vec<String>,
        pub sm: &'a rustc_span::source_map::SourceMap,
    }

    impl<'a, 'ast> Visitor<'ast> for V<'a> {
        fn visit_item(&mut self, i: &'ast ast::Item) {
            let name = match &i.kind {
                ast::ItemKind::Fn(f) => Some(f.ident.name.to_string()),
                ast::ItemKind::Mod(_, ident, _) => Some(ident.name.to_string()),
                ast::ItemKind::Impl(imp) => {
                    let t = self.sm.span_to_snippet(imp.self_ty.span).unwrap_or_default();
                    Some(format!("impl {}", t))
                }
                ast::ItemKind::Trait(t) => Some(t.ident.name.to_string()),
                ast::ItemKind::Struct(ident, ..) | ast::ItemKind::Enum(ident, ..) | ast::ItemKind::Union(ident, ..) => {
                    Some(ident.name.to_string())
                }
                _ => None,
            };
            if let Some(n) = &name {
                self.stack.push(n.clone());
            }
            visit::walk_item(self, i);
            if name.is_some() {
                self.stack.pop();
            }
        }
        fn visit_assoc_item(&mut self, i: &'ast ast::AssocItem, ctxt: visit::AssocCtxt) {
            let name = match &i.kind {
                ast::AssocItemKind::Fn(f) => Some(f.ident.name.to_string()),
                _ => None,
            };
            if let Some(n) = &name {
                self.stack.push(n.clone());
            }
            visit::walk_assoc_item(self, i, ctxt);
            if name.is_some() {
                self.stack.pop();
            }
        }
        fn visit_block(&mut self, b: &'ast ast::Block) {
            if let ast::BlockCheckMode::Unsafe(ast::UnsafeSource::UserProvided) = b.rules {
                let lo = self.sm.lookup_char_pos(b.span.lo());
                let exp = b.span.from_expansion();
                let mut s = String::new();
                s.push_str("{\"k\":\"unsafe\",\"path\":");
                s.push_str(&super::js(&self.stack.join("::")));
                s.push_str(&format!(",\"line\":{},\"exp\":{}}}", lo.line, exp));
                self.out.push(s);
            }
            visit::walk_block(self, b);
        }
        fn visit_field_def(&mut self, f: &'ast ast::FieldDef) {
            for a in f.attrs.iter() {
                if let ast::AttrKind::Normal(n) = &a.kind {
                    let path: Vec<String> = n.item.path.segments.iter().map(|s| s.ident.name.to_string()).collect();
                    if path.first().map(|s| s == "serde").unwrap_or(false) {
                        let txt = self.sm.span_to_snippet(a.span).unwrap_or_default();
                        let fname = f.ident.map(|i| i.name.to_string()).unwrap_or_default();
                        let lo = self.sm.lookup_char_pos(a.span.lo());
                        let mut s = String::new();
                        s.push_str("{\"k\":\"fieldattr\",\"path\":");
                        s.push_str(&super::js(&self.stack.join("::")));
                        s.push_str(&format!(",\"field\":{},\"attr\":{},\"line\":{}}}", super::js(&fname), super::js(&txt), lo.line));
                        self.out.push(s);
                    }
                }
            }
            visit::walk_field_def(self, f);
        }
        fn visit_expr(&mut self, e: &'ast ast::Expr) {
            if let ast::ExprKind::FormatArgs(fa) = &e.kind {
                let mut lits: Vec<String> = Vec::new();
                for piece in fa.template.iter() {
                    if let ast::FormatArgsPiece::Literal(sym) = piece {
                        lits.push(sym.to_string());
                    }
                }
                if !lits.is_empty() {
                    let lo = self.sm.lookup_char_pos(e.span.source_callsite().lo());
                    let mut s = String::new();
                    s.push_str("{\"k\":\"fmtlit\",\"path\":");
                    s.push_str(&super::js(&self.stack.join("::")));
                    s.push_str(",\"lits\":[");
                    for (i, l) in lits.iter().enumerate() {
                        if i > 0 {
                            s.push(',');
                        }
                        s.push_str(&super::js(l));
                    }
                    s.push_str(&format!("],\"line\":{}}}", lo.line));
                    self.out.push(s);
                }
                for piece in fa.template.iter() {
                    if let ast::FormatArgsPiece::Placeholder(ph) = piece {
                        let o = &ph.format_options;
                        let has_prec = o.precision.is_some();
                        let has_width = o.width.is_some();
                        let tr = format!("{:?}", ph.format_trait);
                        let lo = self.sm.lookup_char_pos(e.span.source_callsite().lo());
                        let mut s = String::new();
                        s.push_str("{\"k\":\"fmt\",\"path\":");
                        s.push_str(&super::js(&self.stack.join("::")));
                        s.push_str(&format!(
                            ",\"prec\":{},\"width\":{},\"trait\":{},\"line\":{}}}",
                            has_prec,
                            has_width,
                            super::js(&tr),
                            lo.line
                        ));
                        self.out.push(s);
                    }
                }
            }
            visit::walk_expr(self, e);
        }
    }
}

impl rustc_driver::Callbacks for Cb {
    fn after_expansion<'tcx>(&mut self, _c: &rustc_interface::interface::Compiler, tcx: TyCtxt<'tcx>) -> Compilation {
        if std::env::var("FONTC_FACTS_DIR").is_err() {
            return Compilation::Continue;
        }
        let name = tcx.crate_name(rustc_hir::def_id::LOCAL_CRATE).to_string();
        if !wanted(&name) {
            return Compilation::Continue;
        }
        let r = tcx.resolver_for_lowering().borrow();
        let krate = &r.1;
        let sm = tcx.sess.source_map();
        let mut v = fmtscan::V { stack: vec![], out: &mut self.fmt_facts, sm };
        rustc_ast::visit::walk_crate(&mut v, krate);
        Compilation::Continue
    }

    fn after_analysis<'tcx>(&mut self, _c: &rustc_interface::interface::Compiler, tcx: TyCtxt<'tcx>) -> Compilation {
        let dir = match std::env::var("FONTC_FACTS_DIR") {
            Ok(d) => d,
            Err(_) => return Compilation::Continue,
        };
        let name = tcx.crate_name(rustc_hir::def_id::LOCAL_CRATE).to_string();
        if !wanted(&name) {
            return Compilation::Continue;
        }
        let label = crate_label(tcx, rustc_hir::def_id::LOCAL_CRATE);
        CRATE_PREFIX.with(|p| *p.borrow_mut() = label.clone());
        let mut out = String::with_capacity(1 << 22);
        let src = tcx
            .sess
            .local_crate_source_file()
            .map(|p| format!("{:?}", p))
            .unwrap_or_default();
        let _ = write!(out, "{{\"k\":\"crate\",\"name\":{},\"src\":{},\"cfg_test\":{}}}\n", js(&label), js(&src), tcx.sess.is_test_crate());
        dump_adts(tcx, &mut out);
        for f in self.fmt_facts.drain(..) {
            out.push_str(&f);
            out.push('\n');
        }
        let mut nbodies = 0usize;
        for &ld in tcx.mir_keys(()).iter() {
            let d = ld.to_def_id();
            let dk = tcx.def_kind(d);
            // skip constructor shims
            if matches!(dk, DefKind::Ctor(..)) {
                continue;
            }
            let is_const_like = tcx.hir_body_const_context(ld).is_some() && !tcx.is_const_fn(d);
            let body: &Body<'tcx> = if is_const_like {
                tcx.mir_for_ctfe(ld)
            } else {
                tcx.optimized_mir(ld)
            };
            let k = key(tcx, d);
            let cx = BodyCx { tcx, body, owner: d };
            let extra = body_extra(tcx, ld);
            out.push_str(&cx.dump(&k, &extra));
            out.push('\n');
            nbodies += 1;
            // promoted
            let promoted = tcx.promoted_mir(ld);
            for (pi, pb) in promoted.iter_enumerated() {
                let pk = format!("{}#promoted{}", k, pi.as_u32());
                let cxp = BodyCx { tcx, body: pb, owner: d };
                let ex = format!(",\"dk\":\"Promoted\",\"span\":\"\",\"exp\":false,\"root\":{},\"parent\":{}", js(&k), js(&k));
                out.push_str(&cxp.dump(&pk, &ex));
                out.push('\n');
            }
        }
        let _ = write!(out, "{{\"k\":\"end\",\"bodies\":{}}}\n", nbodies);
        let fname = format!("{}/{}-{}.jsonl", dir, label.replace('[', "_").replace(']', ""), std::process::id());
        std::fs::write(&fname, out).expect("write facts");
        Compilation::Continue
    }
}

fn wanted(name: &str) -> bool {
    match std::env::var("FONTC_FACTS_CRATES") {
        Ok(list) => list.split(',').any(|c| c == name),
        Err(_) => true,
    }
}

fn main() {
    let mut args: Vec<String> = std::env::args().collect();
    // RUSTC_WORKSPACE_WRAPPER: argv[1] is the path of the real rustc
    if args.len() > 1 && (args[1].ends_with("rustc") || args[1].contains("/rustc")) {
        args.remove(1);
    }
    let mut cb = Cb { fmt_facts: Vec::new() };
    rustc_driver::run_compiler(&args, &mut cb);
}
