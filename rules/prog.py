"""Whole-program model over the driver's facts: bodies, ADTs, impls, call graph, CFG utilities."""
import re
from collections import defaultdict, deque

WORK_TRAIT = "fontdrasil::orchestration::Work"
WORK_EXEC = "fontdrasil::orchestration::Work::exec"


class Program:
    def __init__(self, recs):
        self.bodies = {}
        self.adts = {}
        self.impls = []
        self.traits = {}
        self.statics = []
        self.fmts = []
        self.fieldattrs = []
        self.unsafes = []
        self.fmtlits = []
        self.crates = []
        for r in recs:
            k = r["k"]
            if k == "body":
                self.bodies[r["key"]] = r
            elif k == "adt":
                self.adts[r["key"]] = r
            elif k == "impl":
                self.impls.append(r)
            elif k == "trait":
                self.traits[r["key"]] = r
            elif k == "static":
                self.statics.append(r)
            elif k == "fmt":
                self.fmts.append(r)
            elif k == "fieldattr":
                self.fieldattrs.append(r)
            elif k == "unsafe":
                self.unsafes.append(r)
            elif k == "fmtlit":
                self.fmtlits.append(r)
            elif k == "crate":
                self.crates.append(r)
        # trait item -> impl fn keys (CHA)
        self.trait_item_impls = defaultdict(list)
        for key, b in self.bodies.items():
            ti = b.get("trait_item")
            if ti:
                self.trait_item_impls[ti].append(key)
        # children: closures/promoteds by parent
        self.children = defaultdict(list)
        for key, b in self.bodies.items():
            p = b.get("parent")
            if p:
                self.children[p].append(key)
        self._edges = None
        self._sites = {}
        self._rev = None

    # ------------------------------------------------------------------ call resolution
    def resolve_targets(self, info):
        """info = constant FnDef record {fn,res,virt,trait,...}; returns (targets, virtual?)"""
        fn = info["fn"]
        res = info.get("res")
        virt = info.get("virt")
        if res and not virt:
            if res in self.bodies:
                return [res], False
            # resolved to a trait method declaration without a body in our crates, or external
            if res in self.trait_item_impls and info.get("trait"):
                # could not devirtualise (too generic): CHA
                t = list(self.trait_item_impls[res])
                return t, True
            return [res], False
        if info.get("trait"):
            t = list(self.trait_item_impls.get(fn, []))
            if fn in self.bodies:
                t.append(fn)  # provided (default) method
            if res and res in self.bodies and res not in t:
                t.append(res)
            if t:
                return t, True
            return [fn], True
        return [res or fn], False

    def iter_sites(self, key):
        """Yield call sites and function references in a body.
        Each: dict(kind='call'|'fnref'|'closure'|'const', bi, si, info, targets, virt, term/stmt)"""
        if key in self._sites:
            return self._sites[key]
        b = self.bodies[key]
        out = []

        def scan_operand(op, bi, si, line, pos):
            k = op.get("k")
            if not k:
                return
            if "fn" in k:
                tg, v = self.resolve_targets(k)
                out.append({"kind": "fnref", "bi": bi, "si": si, "info": k, "targets": tg, "virt": v, "line": line})
            elif "uneval" in k:
                if "promoted" in k:
                    tk = f"{k['uneval']}#promoted{k['promoted']}"
                else:
                    tk = k["uneval"]
                out.append({"kind": "const", "bi": bi, "si": si, "info": k, "targets": [tk], "virt": False, "line": line})

        for bi, blk in enumerate(b["blocks"]):
            for si, st in enumerate(blk["s"]):
                rv = st["rv"]
                if rv.get("r") == "agg" and rv.get("ak") == "closure":
                    out.append({"kind": "closure", "bi": bi, "si": si, "info": rv, "targets": [rv["def"]], "virt": False, "line": st["l"]})
                for op in rv.get("o", []):
                    scan_operand(op, bi, si, st["l"], "stmt")
            t = blk["t"]
            if t["t"] == "call":
                f = t["f"]
                k = f.get("k")
                if k and "fn" in k:
                    tg, v = self.resolve_targets(k)
                    out.append({"kind": "call", "bi": bi, "si": None, "info": k, "targets": tg, "virt": v, "term": t, "line": t["l"]})
                else:
                    out.append({"kind": "call", "bi": bi, "si": None, "info": None, "targets": [], "virt": True, "term": t, "line": t["l"]})
                for op in t["a"]:
                    scan_operand(op, bi, None, t["l"], "arg")
            elif t["t"] == "sw":
                scan_operand(t["o"], bi, None, t["l"], "sw")
            elif t["t"] == "assert":
                for op in t.get("o", []):
                    scan_operand(op, bi, None, t["l"], "assert")
        self._sites[key] = out
        return out

    def edges(self):
        if self._edges is None:
            e = {}
            for key in self.bodies:
                s = set()
                for site in self.iter_sites(key):
                    for tg in site["targets"]:
                        s.add(tg)
                e[key] = s
            self._edges = e
        return self._edges

    def rev_edges(self):
        if self._rev is None:
            r = defaultdict(set)
            for a, bs in self.edges().items():
                for b in bs:
                    r[b].add(a)
            self._rev = r
        return self._rev

    def is_work_exec_impl(self, key):
        b = self.bodies.get(key)
        return bool(b) and b.get("trait_item") == WORK_EXEC

    def reachable(self, roots, skip_edge=None, stop=None):
        """Forward reachability over the call graph. skip_edge(caller, callee)->bool to not follow."""
        edges = self.edges()
        seen = set()
        dq = deque(r for r in roots)
        for r in roots:
            seen.add(r)
        while dq:
            k = dq.popleft()
            if stop and k in stop and k not in roots:
                continue
            for c in edges.get(k, ()):
                if c in seen:
                    continue
                if skip_edge and skip_edge(k, c):
                    continue
                seen.add(c)
                if c in self.bodies:
                    dq.append(c)
        return seen

    def reach_with_parents(self, roots, skip_edge=None):
        edges = self.edges()
        par = {r: None for r in roots}
        dq = deque(roots)
        while dq:
            k = dq.popleft()
            for c in sorted(edges.get(k, ())):
                if c in par:
                    continue
                if skip_edge and skip_edge(k, c):
                    continue
                par[c] = k
                if c in self.bodies:
                    dq.append(c)
        return par

    @staticmethod
    def path_to(par, k):
        out = []
        while k is not None:
            out.append(k)
            k = par.get(k)
        return list(reversed(out))

    def find_bodies(self, regex):
        rx = re.compile(regex)
        return sorted(k for k in self.bodies if rx.search(k))

    def body_file_line(self, key):
        b = self.bodies.get(key)
        if not b:
            return "?"
        sp = b.get("span") or ""
        if not sp and b.get("root"):
            return self.body_file_line(b["root"])
        import facts
        return sp.replace(facts.REPO.rstrip("/") + "/", "")

    def site_loc(self, key, line):
        fl = self.body_file_line(key)
        f = fl.rsplit(":", 1)[0]
        return f"{f}:{line}"


# ---------------------------------------------------------------------- per-body helpers

def place_local(p):
    return p[0]


def place_fields(p):
    """list of (name, adt) for field projections in a place"""
    out = []
    for e in p[1:]:
        if e.startswith("f:"):
            _, name, adt = e.split(":", 2)
            out.append((name, adt))
    return out


def operand_place(op):
    return op.get("c") or op.get("m")


def operand_local(op):
    p = operand_place(op)
    return p[0] if p else None


class CFG:
    def __init__(self, body, ignore_cleanup=True):
        self.body = body
        blocks = body["blocks"]
        n = len(blocks)
        self.n = n
        self.succ = [[] for _ in range(n)]
        self.pred = [[] for _ in range(n)]
        for i, blk in enumerate(blocks):
            t = blk["t"]
            tos = list(t.get("to", []))
            if not ignore_cleanup:
                u = t.get("u")
                if u is not None:
                    tos.append(u)
            for j in tos:
                self.succ[i].append(j)
                self.pred[j].append(i)
        self._dom = None
        self._pdom = None

    def reachable_from(self, start, avoid=()):
        seen = {start}
        dq = deque([start])
        avoid = set(avoid)
        while dq:
            x = dq.popleft()
            for y in self.succ[x]:
                if y not in seen and y not in avoid:
                    seen.add(y)
                    dq.append(y)
        return seen

    def dominators(self):
        """dom[b] = set of blocks dominating b (iterative; bodies are small)"""
        if self._dom is not None:
            return self._dom
        n = self.n
        reach = self.reachable_from(0)
        order = self._rpo(0, self.succ)
        idom = self._idoms(0, order, self.pred)
        self._idom = idom
        dom = {}
        for b in order:
            s = {b}
            x = b
            while idom.get(x) is not None and idom[x] != x:
                x = idom[x]
                s.add(x)
            dom[b] = s
        self._dom = dom
        return dom

    def _rpo(self, start, succ):
        seen = set()
        out = []
        stack = [(start, iter(succ[start]))]
        seen.add(start)
        while stack:
            node, it = stack[-1]
            adv = False
            for nx in it:
                if nx not in seen:
                    seen.add(nx)
                    stack.append((nx, iter(succ[nx])))
                    adv = True
                    break
            if not adv:
                out.append(node)
                stack.pop()
        out.reverse()
        return out

    def _idoms(self, start, order, pred):
        idx = {b: i for i, b in enumerate(order)}
        idom = {start: start}
        changed = True

        def intersect(a, b):
            while a != b:
                while idx[a] > idx[b]:
                    a = idom[a]
                while idx[b] > idx[a]:
                    b = idom[b]
            return a

        while changed:
            changed = False
            for b in order:
                if b == start:
                    continue
                ps = [p for p in pred[b] if p in idom and p in idx]
                if not ps:
                    continue
                new = ps[0]
                for p in ps[1:]:
                    new = intersect(new, p)
                if idom.get(b) != new:
                    idom[b] = new
                    changed = True
        return idom

    def dominates(self, a, b):
        d = self.dominators()
        return b in d and a in d[b]

    def exits(self, kinds=("ret",)):
        return [i for i, blk in enumerate(self.body["blocks"]) if blk["t"]["t"] in kinds]

    def must_pass(self, targets, start=0, exit_blocks=None):
        """True iff every path from start to any exit block passes through a block in targets."""
        targets = set(targets)
        if exit_blocks is None:
            exit_blocks = self.exits()
        if start in targets:
            return True
        seen = self.reachable_from(start, avoid=targets)
        return not any(e in seen for e in exit_blocks)


def def_sites(body):
    """local -> list of ('stmt', bi, si, rv) / ('call', bi, term)"""
    d = defaultdict(list)
    for bi, blk in enumerate(body["blocks"]):
        if blk["cl"]:
            continue  # unwind/cleanup blocks never produce values that reach a normal return
        for si, st in enumerate(blk["s"]):
            if "*" in st["d"][1:]:
                continue  # a write through a pointer does not define the pointer local
            d[st["d"][0]].append(("stmt", bi, si, st))
        t = blk["t"]
        if t["t"] == "call" and "*" not in t["d"][1:]:
            d[t["d"][0]].append(("call", bi, None, t))
    return d


def operand_locals(ops):
    out = []
    for op in ops:
        l = operand_local(op)
        if l is not None:
            out.append(l)
    return out


def backward_slice(body, start_locals, defs=None, through_calls=True, max_n=100000):
    """Flow-insensitive backward slice: all locals that can flow into start_locals.
    Returns (locals set, list of defining records visited)."""
    if defs is None:
        defs = def_sites(body)
    seen = set()
    recs = []
    dq = deque(start_locals)
    while dq and len(seen) < max_n:
        l = dq.popleft()
        if l in seen:
            continue
        seen.add(l)
        for d in defs.get(l, ()):
            recs.append(d)
            if d[0] == "stmt":
                rv = d[3]["rv"]
                for x in operand_locals(rv.get("o", [])):
                    dq.append(x)
                if "p" in rv:
                    dq.append(rv["p"][0])
            else:
                if through_calls:
                    t = d[3]
                    for x in operand_locals(t["a"]):
                        dq.append(x)
                    fl = operand_local(t["f"])
                    if fl is not None:
                        dq.append(fl)
    return seen, recs


def short(key):
    return key.replace("{impl#", "{i").replace("{closure#", "{c")
