"""Engine E1 - job effects and forced ordering (C02; feeds C01).

Everything is derived from MIR facts of /repo's current tree:
  slots        <- fields of the two Context structs + Context::new_root / IdAware::id
  job types    <- impls of fontdrasil::orchestration::Work (id / also_completes / read_access / write_access / exec)
  effects      <- Context-field projections flowing into the ContextItem/ContextMap API, over the call-graph reach of exec
  dynamic jobs <- Workload::add call sites reachable from Workload::handle_success + dominating discriminant switches
  rewrites     <- assignments to Job.read_access reachable from handle_success
Rules R1..R9 are documented in DESIGN.md section 3.
"""
import os
from collections import defaultdict, deque

from prog import (CFG, WORK_EXEC, WORK_TRAIT, backward_slice, def_sites, operand_local,
                  operand_locals, operand_place, place_fields)

FE_CTX = "fontir::orchestration::Context"
BE_CTX = "fontbe::orchestration::Context"
FE_ID = "fontir::orchestration::WorkId"
BE_ID = "fontbe::orchestration::WorkId"
ANY_ID = "fontbe::orchestration::AnyWorkId"
ACCESS = "fontdrasil::orchestration::Access"
ACCESS_TYPE = "fontdrasil::orchestration::AccessType"
BUILDER_IMPL_SELF = "fontdrasil::orchestration::AccessBuilder<"
SOURCE_TRAIT = "fontir::source::Source"

HANDLE_SUCCESS = "fontc::workload::{impl#0}::handle_success"
WORKLOAD_NEW = "fontc::workload::{impl#0}::new"
WORKLOAD_EXEC = "fontc::workload::{impl#0}::exec"
JOB_ADT = "fontc::workload::Job"


class E1Error(Exception):
    """checker cannot see the code (anchor missing / floor not met): exit 2"""


def dom_of(adt):
    return {FE_ID: "Fe", BE_ID: "Be"}.get(adt)


class E1:
    def __init__(self, P):
        self.P = P
        self.findings = []      # dicts: rule, key, msg, loc, detail
        self.obligations = []   # dicts: rule, inst, ok
        self.notes = []
        self.samples = []
        self._ids_cache = {}
        self._const_cache = {}
        self._api = None
        self._touch_cache = {}
        self._holders = {}

    # ------------------------------------------------------------------ tracked ids
    def variant_multi(self, dom, variant):
        adt = self.P.adts.get(FE_ID if dom == "Fe" else BE_ID)
        if not adt:
            raise E1Error("WorkId enum not found")
        for v in adt["variants"]:
            if v["name"] == variant:
                return len(v["fields"]) > 0
        raise E1Error(f"variant {dom}::{variant} not found")

    def all_variants(self, dom):
        adt = self.P.adts[FE_ID if dom == "Fe" else BE_ID]
        return [v["name"] for v in adt["variants"]]

    def const_ids(self, const_key):
        """ids built by an associated const's body (WorkId::ALL_GLYPHS -> Fe.Glyph)"""
        if const_key in self._const_cache:
            return self._const_cache[const_key]
        self._const_cache[const_key] = set()
        b = self.P.bodies.get(const_key)
        out = set()
        if b:
            out = self.ids_in_body(b, None)
        self._const_cache[const_key] = out
        return out

    def ids_from_records(self, body, recs):
        out = set()
        for d in recs:
            if d[0] == "stmt":
                rv = d[3]["rv"]
                if rv.get("r") == "agg" and rv.get("ak") == "adt":
                    dm = dom_of(rv["adt"])
                    if dm:
                        out.add((dm, rv["v"]))
                for op in rv.get("o", []):
                    k = op.get("k")
                    if k and "uneval" in k and "promoted" not in k:
                        out |= self.const_ids(k["uneval"])
                    elif k and "uneval" in k and "promoted" in k:
                        out |= self.const_ids(f"{k['uneval']}#promoted{k['promoted']}")
            else:
                t = d[3]
                for op in t["a"]:
                    k = op.get("k")
                    if k and "uneval" in k:
                        kk = k["uneval"] + (f"#promoted{k['promoted']}" if "promoted" in k else "")
                        out |= self.const_ids(kk)
        return out

    def ids_in_body(self, body, locals_=None):
        """tracked ids built anywhere in body (locals_=None) or in the backward slice of locals_"""
        defs = def_sites(body)
        if locals_ is None:
            recs = [d for ds in defs.values() for d in ds]
        else:
            _, recs = backward_slice(body, locals_, defs)
        return self.ids_from_records(body, recs)

    def ids_of_operand(self, body, op, defs=None):
        """ids that can flow into a call operand (constant or local)"""
        k = op.get("k")
        if k:
            if "uneval" in k:
                kk = k["uneval"] + (f"#promoted{k['promoted']}" if "promoted" in k else "")
                return self.const_ids(kk)
            return set()
        l = operand_local(op)
        if l is None:
            return set()
        return self.ids_in_body(body, [l])

    # ------------------------------------------------------------------ slots
    def slots(self):
        """(ctx 'Fe'|'Be', field) -> dict(id=(dom,variant), multi=bool, kind='item'|'map')"""
        P = self.P
        out = {}
        for ctx, adt_key, crate in (("Fe", FE_CTX, "fontir"), ("Be", BE_CTX, "fontbe")):
            adt = P.adts.get(adt_key)
            if not adt:
                raise E1Error(f"{adt_key} not found")
            fields = adt["variants"][0]["fields"]
            new_root = P.bodies.get(f"{crate}::orchestration::{{impl#"  # placeholder, resolved below
                                    )
            nr = [k for k in P.bodies if k.startswith(f"{crate}::orchestration::") and k.endswith("::new_root")
                  and P.bodies[k].get("impl_self") == adt_key]
            if len(nr) != 1:
                raise E1Error(f"Context::new_root anchor not found for {adt_key}: {nr}")
            body = P.bodies[nr[0]]
            defs = def_sites(body)
            # find the aggregate building the Context
            agg = None
            for blk in body["blocks"]:
                for st in blk["s"]:
                    rv = st["rv"]
                    if rv.get("r") == "agg" and rv.get("ak") == "adt" and rv["adt"] == adt_key:
                        agg = rv
            if agg is None:
                raise E1Error(f"no Context aggregate in {nr[0]}")
            if len(agg["o"]) != len(fields):
                raise E1Error("Context aggregate arity mismatch")
            for f, op in zip(fields, agg["o"]):
                ty = f["ty"]
                if ty.startswith("fontir::orchestration::ContextItem<"):
                    kind = "item"
                elif ty.startswith("fontir::orchestration::ContextMap<"):
                    kind = "map"
                else:
                    continue
                ids = set()
                if kind == "item":
                    l = operand_local(op)
                    # the defining call is ContextItem::new(id, acl, storage): slice only its first argument
                    for d in defs.get(l, ()):
                        if d[0] == "call":
                            t = d[3]
                            ids |= self.ids_of_operand(body, t["a"][0], defs)
                else:
                    # value type T = 2nd generic arg; its IdAware::id impl builds the variant
                    vt = split_generics(ty)[1]
                    for imp in P.impls:
                        if imp["trait"] == "fontir::orchestration::IdAware" and imp["self"] == vt:
                            for fk, _ in imp["items"]:
                                if fk.endswith("::id"):
                                    ids |= self.ids_in_body(P.bodies[fk])
                if len(ids) != 1:
                    raise E1Error(f"slot {ctx}.{f['name']}: cannot determine id ({ids})")
                (dm, var), = ids
                out[(ctx, f["name"])] = {"id": (dm, var), "multi": self.variant_multi(dm, var), "kind": kind}
        return out

    # ------------------------------------------------------------------ ContextItem / ContextMap API
    def api(self):
        """fn key -> op name for methods of ContextItem / ContextMap"""
        if self._api is None:
            m = {}
            for k, b in self.P.bodies.items():
                s = b.get("impl_self") or ""
                if s.startswith("fontir::orchestration::ContextItem<") or s.startswith("fontir::orchestration::ContextMap<"):
                    if b.get("dk") == "AssocFn":
                        m[k] = k.rsplit("::", 1)[1]
            if not m:
                raise E1Error("ContextItem/ContextMap API not found")
            self._api = m
        return self._api

    READ_OPS = {"get", "try_get", "all"}
    WRITE_OPS = {"set", "set_unconditionally"}
    NEUTRAL_OPS = {"clone_with_acl", "new"}

    def touches(self, key):
        """slot touches in one body: list of dict(ctx, field, op, line, bi)"""
        if key in self._touch_cache:
            return self._touch_cache[key]
        P = self.P
        body = P.bodies[key]
        api = self.api()
        out = []
        # 1. find locals holding a reference to a slot field
        holders = {}  # local -> (ctx, field, line)
        for bi, blk in enumerate(body["blocks"]):
            if blk["cl"]:
                continue
            for st in blk["s"]:
                rv = st["rv"]
                p = rv.get("p") if rv.get("r") in ("ref", "rawptr") else None
                if p is None and rv.get("r") == "use":
                    p = operand_place(rv["o"][0])
                if not p:
                    continue
                for name, adt in place_fields(p):
                    if adt in (FE_CTX, BE_CTX):
                        ctx = "Fe" if adt == FE_CTX else "Be"
                        if (ctx, name) in self._slots:
                            dl = st["d"][0]
                            if len(st["d"]) > 1:
                                out.append({"ctx": ctx, "field": name, "op": "escape:stored", "line": st["l"], "bi": bi})
                            else:
                                holders[dl] = (ctx, name, st["l"])
            # direct use of a slot place as call operand (by value) is not expected; handled as escape below
            t = blk["t"]
            if t["t"] == "call":
                for op in t["a"]:
                    p = operand_place(op)
                    if p and len(p) > 1:
                        for name, adt in place_fields(p):
                            if adt in (FE_CTX, BE_CTX) and (("Fe" if adt == FE_CTX else "Be"), name) in self._slots:
                                out.append({"ctx": "Fe" if adt == FE_CTX else "Be", "field": name, "op": "escape:byvalue", "line": t["l"], "bi": bi})
        if not holders:
            self._touch_cache[key] = out
            self._holders[key] = {}
            return out
        # 2. propagate through copies / reborrows
        changed = True
        while changed:
            changed = False
            for bi, blk in enumerate(body["blocks"]):
                for st in blk["s"]:
                    rv = st["rv"]
                    src = None
                    if rv.get("r") == "use":
                        p = operand_place(rv["o"][0])
                        if p and all(e == "*" for e in p[1:]):
                            src = p[0]
                    elif rv.get("r") == "ref":
                        p = rv["p"]
                        if all(e == "*" for e in p[1:]):
                            src = p[0]
                    if src in holders and len(st["d"]) == 1 and st["d"][0] not in holders:
                        holders[st["d"][0]] = holders[src]
                        changed = True
        # 3. classify uses
        used = set()
        for bi, blk in enumerate(body["blocks"]):
            if blk["cl"]:
                continue
            for st in blk["s"]:
                rv = st["rv"]
                for l in operand_locals(rv.get("o", [])) + ([rv["p"][0]] if "p" in rv else []):
                    if l in holders:
                        # copies/reborrows already propagated; anything else is an escape
                        r = rv.get("r")
                        ok = False
                        if r == "use":
                            p = operand_place(rv["o"][0])
                            ok = bool(p) and all(e == "*" for e in p[1:]) and len(st["d"]) == 1
                        elif r == "ref":
                            ok = all(e == "*" for e in rv["p"][1:]) and len(st["d"]) == 1
                        if not ok:
                            ctx, name, ln = holders[l]
                            out.append({"ctx": ctx, "field": name, "op": f"escape:{r}", "line": st["l"], "bi": bi})
            t = blk["t"]
            if t["t"] == "call":
                k = t["f"].get("k")
                callee = (k.get("res") or k.get("fn")) if k else None
                for ai, op in enumerate(t["a"]):
                    l = operand_local(op)
                    p = operand_place(op)
                    if l in holders and p is not None and all(e == "*" for e in p[1:]):
                        ctx, name, ln = holders[l]
                        used.add(l)
                        if callee in api and ai == 0:
                            opn = api[callee]
                            out.append({"ctx": ctx, "field": name, "op": opn, "line": t["l"], "bi": bi})
                        else:
                            out.append({"ctx": ctx, "field": name, "op": f"escape:{callee}", "line": t["l"], "bi": bi})
        self._touch_cache[key] = out
        self._holders[key] = holders
        return out

    def slots_read_in_slice(self, fn_key, body, recs):
        """slots whose ContextItem/ContextMap read API result is part of a backward slice"""
        self.touches(fn_key)
        holders = self._holders.get(fn_key, {})
        api = self.api()
        out = set()
        for d in recs:
            if d[0] != "call":
                continue
            t = d[3]
            k = t["f"].get("k")
            callee = (k.get("res") or k.get("fn")) if k else None
            if callee in api and t["a"]:
                l = operand_local(t["a"][0])
                if l in holders:
                    out.add((holders[l][0], holders[l][1]))
        return out

    # ------------------------------------------------------------------ declared access
    def builder_fns(self):
        m = {}
        for k, b in self.P.bodies.items():
            if (b.get("impl_self") or "").startswith(BUILDER_IMPL_SELF) and b.get("dk") == "AssocFn":
                m[k] = k.rsplit("::", 1)[1]
        return m

    def access_items(self, fn_key, locals_=None, sink_blocks=None, _depth=0, _seen=None):
        """Access declared by a function (read_access / write_access) or, with locals_, by the
        backward slice of a value inside a function.
        Returns dict(unknown, none, all, items=set((id, kind)), uncond=set((id,kind)), key_slots, unrecognised).
        An item is *unconditional* iff the block that adds it dominates every sink block
        (all normal returns in whole-function mode; the assignment block in slice mode):
        `if has_components { deps = deps.variant(GlyphOrder) }` and items added inside loops are conditional."""
        P = self.P
        body = P.bodies[fn_key]
        defs = def_sites(body)
        builders = self.builder_fns()
        cfg = CFG(body)
        if sink_blocks is None:
            sink_blocks = cfg.exits()
        if locals_ is None:
            recs = [d for ds in defs.values() for d in ds]
        else:
            _, recs = backward_slice(body, locals_, defs)
        res = {"unknown": False, "none": False, "all": False, "items": set(), "uncond": set(), "unrecognised": [], "key_slots": {}}
        _seen = _seen or set()

        def dominates_sinks(bi):
            return bool(sink_blocks) and all(cfg.dominates(bi, sb) for sb in sink_blocks)

        def add_item(i, kind, bi, inner_uncond=True):
            res["items"].add((i, kind))
            if inner_uncond and dominates_sinks(bi):
                res["uncond"].add((i, kind))

        for d in recs:
            bi = d[1]
            if d[0] == "stmt":
                rv = d[3]["rv"]
                if rv.get("r") == "agg" and rv.get("ak") == "adt" and rv["adt"] in (ACCESS, ACCESS_TYPE):
                    v = rv["v"]
                    if v == "Unknown":
                        res["unknown"] = True
                    elif v == "None":
                        res["none"] = True
                    elif v == "All":
                        res["all"] = True
                    elif v in ("Variant", "SpecificInstanceOfVariant"):
                        kind = "variant" if v == "Variant" else "specific"
                        for i in self.ids_of_operand(body, rv["o"][0], defs):
                            add_item(i, kind, bi)
            else:
                t = d[3]
                k = t["f"].get("k")
                if not k:
                    continue
                callee = k.get("res") or k.get("fn")
                if callee in builders:
                    nm = builders[callee]
                    if nm in ("variant", "specific_instance"):
                        kind = "variant" if nm == "variant" else "specific"
                        ids = self.ids_of_operand(body, t["a"][1], defs)
                        if not ids:
                            res["unrecognised"].append(f"{fn_key}:{t['l']} builder arg without tracked id")
                        al = operand_local(t["a"][1])
                        ks = set()
                        if al is not None:
                            _, arecs = backward_slice(body, [al], defs)
                            ks = self.slots_read_in_slice(fn_key, body, arecs)
                        for i in ids:
                            add_item(i, kind, bi)
                            res["key_slots"].setdefault((i, kind), set()).update(ks)
                elif callee in P.bodies and _depth < 3 and callee not in _seen:
                    cb = P.bodies[callee]
                    ret = cb.get("ret") or ""
                    if "orchestration::Access" in ret:
                        _seen.add(callee)
                        sub = self.access_items(callee, None, None, _depth + 1, _seen)
                        for kk in ("unknown", "none", "all"):
                            res[kk] = res[kk] or sub[kk]
                        for it in sub["items"]:
                            add_item(it[0], it[1], bi, it in sub["uncond"])
                        res["unrecognised"] += sub["unrecognised"]
                        for kk2, vv in sub["key_slots"].items():
                            res["key_slots"].setdefault(kk2, set()).update(vv)
        return res

    # ------------------------------------------------------------------ job types
    def job_types(self):
        P = self.P
        jobs = {}
        for imp in P.impls:
            if imp["trait"] != WORK_TRAIT:
                continue
            crate = imp["key"].split("::", 1)[0]
            j = {"impl": imp["key"], "self": imp["self"], "crate": crate, "methods": {}}
            for fk, ti in imp["items"]:
                j["methods"][fk.rsplit("::", 1)[1]] = fk
            m = j["methods"]
            if "id" not in m or "exec" not in m:
                raise E1Error(f"Work impl without id/exec: {imp['key']}")
            j["ids"] = self.ids_in_body(P.bodies[m["id"]])
            if len(j["ids"]) != 1:
                raise E1Error(f"{imp['self']}::id builds {j['ids']}")
            j["also"] = self.ids_in_body(P.bodies[m["also_completes"]]) if "also_completes" in m else set()
            if "read_access" in m:
                j["rdecl"] = self.access_items(m["read_access"])
            else:
                j["rdecl"] = {"unknown": False, "none": True, "all": False, "items": set(), "uncond": set(), "unrecognised": [], "key_slots": {}}
            if "write_access" in m:
                j["wdecl"] = self.access_items(m["write_access"])
            else:
                j["wdecl"] = {"unknown": False, "none": False, "all": False,
                              "items": {(i, "specific") for i in (j["ids"] | j["also"])},
                              "uncond": {(i, "specific") for i in (j["ids"] | j["also"])}, "unrecognised": [], "key_slots": {}}
            j["ctx"] = "Fe" if next(iter(j["ids"]))[0] == "Fe" else "Be"
            jobs[imp["key"]] = j
        return jobs

    # ------------------------------------------------------------------ reach & effects
    def exec_reach(self, exec_key):
        P = self.P

        def skip(caller, callee):
            return P.is_work_exec_impl(callee)

        return P.reach_with_parents([exec_key], skip)

    def effects(self, roots_par):
        """aggregate touches over a reach set: list of dict(ctx, field, op, fn, line)"""
        out = []
        for fn in roots_par:
            if fn not in self.P.bodies:
                continue
            if self.is_context_plumbing(fn):
                continue
            for t in self.touches(fn):
                tt = dict(t)
                tt["fn"] = fn
                out.append(tt)
        return out

    def is_context_plumbing(self, fn):
        """Context::copy / new_root / copy_for_work / read_only: build a job's view on the main thread"""
        b = self.P.bodies[fn]
        s = b.get("impl_self")
        if s in (FE_CTX, BE_CTX):
            name = fn.rsplit("::", 1)[1]
            return name in ("copy", "new_root", "copy_for_work", "read_only")
        return False


def split_generics(ty):
    """'A<B, C<D, E>, F>' -> ['B', 'C<D, E>', 'F']"""
    i = ty.index("<")
    inner = ty[i + 1:ty.rindex(">")]
    out = []
    depth = 0
    cur = ""
    for ch in inner:
        if ch in "<([":
            depth += 1
        elif ch in ">)]":
            depth -= 1
        if ch == "," and depth == 0:
            out.append(cur.strip())
            cur = ""
        else:
            cur += ch
    if cur.strip():
        out.append(cur.strip())
    return out


# ====================================================================== creation sites, triggers, rewrites
def unsize_work_types(P, fn_keys):
    """Work types boxed into dyn Work inside the given bodies"""
    out = set()
    for fk in fn_keys:
        b = P.bodies.get(fk)
        if not b:
            continue
        for blk in b["blocks"]:
            for st in blk["s"]:
                rv = st["rv"]
                if rv.get("r") == "cast" and "Unsize" in rv.get("ck", "") and "dyn fontdrasil::orchestration::Work<" in rv["to"]:
                    fr = rv["from"]
                    if fr.startswith("std::boxed::Box<"):
                        inner = split_generics(fr)[0]
                        if not inner.startswith("dyn "):
                            out.add(inner)
    return out


def path_conditions(body, cfg, block, adts):
    """Discriminant constraints that hold on entry to `block`:
    list of (place (list), enum type string, variant name)."""
    dom = cfg.dominators()
    out = []
    if block not in dom:
        return out
    for s in dom[block]:
        blk = body["blocks"][s]
        t = blk["t"]
        if t["t"] != "sw":
            continue
        dl = operand_local(t["o"])
        src = None
        for st in blk["s"]:
            if st["d"] == [dl] and st["rv"].get("r") == "discr":
                src = st["rv"]["p"]
        if src is None:
            continue
        vals, tos = t["v"], t["to"]
        for v, tg in zip(vals, tos[:-1]):
            if tos.count(tg) != 1:
                continue
            # the edge s->tg dominates block iff tg dominates block and tg's only predecessor is s
            if tg in dom[block] and cfg.pred[tg] == [s]:
                out.append((src, int(v)))
    return out


def place_type(body, place, adts):
    """best-effort type of an enum place: follows Downcast+Field using ADT facts"""
    ty = body["locals"][place[0]]
    cur_variant = None
    for e in place[1:]:
        if e == "*":
            ty = ty.lstrip("&").replace("mut ", "", 1) if ty.startswith("&") else ty
        elif e.startswith("d:"):
            cur_variant = e[2:]
        elif e.startswith("f:"):
            _, name, adt = e.split(":", 2)
            a = adts.get(adt)
            if not a:
                return None
            vs = a["variants"]
            v = None
            if cur_variant is not None:
                v = next((x for x in vs if x["name"] == cur_variant), None)
            elif len(vs) == 1:
                v = vs[0]
            if v is None:
                return None
            f = next((x for x in v["fields"] if x["name"] == name), None)
            if f is None:
                return None
            ty = f["ty"]
            cur_variant = None
        else:
            return None
    while ty.startswith("&"):
        ty = ty[1:].strip()
        if ty.startswith("mut "):
            ty = ty[4:]
    return ty


def trigger_of(P, fn_key, block, param_local):
    """Interpret path conditions on the `success: AnyWorkId` parameter: returns (dom, variant) or None"""
    body = P.bodies[fn_key]
    cfg = CFG(body)
    conds = path_conditions(body, cfg, block, P.adts)
    top = None
    inner = None
    for place, val in conds:
        if place[0] != param_local:
            continue
        ty = place_type(body, place, P.adts)
        if ty == ANY_ID and len(place) == 1:
            top = P.adts[ANY_ID]["variants"][val]["name"]
        elif ty in (FE_ID, BE_ID):
            inner = (("Fe" if ty == FE_ID else "Be"), P.adts[ty]["variants"][val]["name"])
    if top and inner and inner[0] == top:
        return inner
    return None


# ====================================================================== model construction
FE_CRATES = ["ufo2fontir", "glyphs2fontir", "fontra2fontir"]
COMMON_CRATES = ["fontir", "fontbe", "fontdrasil", "fontc", "fea_rs", "glyphs_reader"]


def crate_of(key):
    return key.split("::", 1)[0]


class Model:
    pass


def build_model(E):
    P = E.P
    M = Model()
    E._slots = {}
    M.slots = E.slots()
    E._slots = M.slots
    M.slot_by_id = {}
    for sk, sv in M.slots.items():
        M.slot_by_id.setdefault(sv["id"], []).append(sk)
    M.jobs = E.job_types()
    # ---- effects per job type
    for jk, j in M.jobs.items():
        par = E.exec_reach(j["methods"]["exec"])
        j["reach"] = par
        eff = E.effects(par)
        j["touches"] = eff
        j["reads"] = defaultdict(list)
        j["writes"] = defaultdict(list)
        j["escapes"] = []
        for t in eff:
            sk = (t["ctx"], t["field"])
            if t["op"] in E.READ_OPS:
                j["reads"][sk].append(t)
            elif t["op"] in E.WRITE_OPS:
                j["writes"][sk].append(t)
            elif t["op"] in E.NEUTRAL_OPS:
                pass
            else:
                j["escapes"].append(t)
    # ---- scheduler anchors
    for a in (HANDLE_SUCCESS, WORKLOAD_NEW, WORKLOAD_EXEC):
        if a not in P.bodies:
            raise E1Error(f"anchor {a} not found")
    add_key = "fontc::workload::{impl#0}::add"
    if add_key not in P.bodies:
        raise E1Error("Workload::add not found")
    hs = P.bodies[HANDLE_SUCCESS]
    succ_param = None
    for i in range(1, hs["argc"] + 1):
        if hs["locals"][i] == ANY_ID:
            succ_param = i
    if succ_param is None:
        raise E1Error("handle_success has no AnyWorkId parameter")

    def skip(caller, callee):
        return P.is_work_exec_impl(callee)

    # propagate triggers from handle_success through fontc::workload functions
    fn_trig = defaultdict(set)   # fn -> set of trigger (dom,var)|None
    fn_trig[HANDLE_SUCCESS].add("ROOT")
    M.hs_sites = []  # (fn, block, trigger)
    order = deque([HANDLE_SUCCESS])
    seen_pairs = set()
    M.hs_fns = {}
    while order:
        fn = order.popleft()
        body = P.bodies[fn]
        for site in P.iter_sites(fn):
            if site["kind"] != "call":
                continue
            for tg in site["targets"]:
                if tg not in P.bodies or not tg.startswith("fontc::workload::"):
                    continue
                if fn == HANDLE_SUCCESS:
                    tr = {trigger_of(P, fn, site["bi"], succ_param)}
                else:
                    tr = set(fn_trig[fn])
                new = tr - fn_trig[tg]
                if new:
                    fn_trig[tg] |= new
                    order.append(tg)
    M.fn_trig = fn_trig

    def site_triggers(fn, bi):
        if fn == HANDLE_SUCCESS:
            return {trigger_of(P, fn, bi, succ_param)}
        return set(fn_trig[fn])

    # ---- dynamic creation sites
    M.dynamic = []   # dict(fn, line, triggers, types)
    M.rewrites = []  # dict(fn, line, triggers, target ids, access)
    M.main_touches = []
    for fn in list(fn_trig.keys()):
        body = P.bodies[fn]
        defs = def_sites(body)
        for site in P.iter_sites(fn):
            if site["kind"] == "call" and add_key in site["targets"]:
                t = site["term"]
                l = operand_local(t["a"][1])
                _, recs = backward_slice(body, [l], defs)
                types = set()
                creators = []
                for d in recs:
                    if d[0] != "call":
                        continue
                    k = d[3]["f"].get("k")
                    if not k:
                        continue
                    tgs, _ = P.resolve_targets(k)
                    for tg in tgs:
                        if tg in P.bodies and crate_of(tg) not in ("core", "alloc", "std"):
                            r = P.reachable([tg], skip)
                            ts = unsize_work_types(P, r)
                            if ts:
                                creators.append(tg)
                            types |= ts
                # the argument itself may be a boxed work built inline
                # slots whose presence (try_get(..) is Some) guards this creation site
                guard_slots = set()
                E.touches(fn)
                holders = E._holders.get(fn, {})
                cfg_fn = CFG(body)
                for place, val in path_conditions(body, cfg_fn, site["bi"], P.adts):
                    if len(place) != 1 or val != 1:
                        continue
                    for dd in defs.get(place[0], ()):
                        if dd[0] == "call":
                            kk = dd[3]["f"].get("k")
                            cal = (kk.get("res") or kk.get("fn")) if kk else None
                            if E.api().get(cal) == "try_get" and operand_local(dd[3]["a"][0]) in holders:
                                h = holders[operand_local(dd[3]["a"][0])]
                                guard_slots.add((h[0], h[1]))
                M.dynamic.append({"fn": fn, "line": site["line"], "bi": site["bi"], "triggers": site_triggers(fn, site["bi"]),
                                  "types": types, "creators": creators, "guard_slots": guard_slots})
        for bi, blk in enumerate(body["blocks"]):
            if blk["cl"]:
                continue
            for st in blk["s"]:
                d = st["d"]
                if any(e == f"f:read_access:{JOB_ADT}" for e in d[1:]):
                    tgt_ids = E.ids_in_body(body, [d[0]])
                    vals = operand_locals(st["rv"].get("o", []))
                    acc = E.access_items(fn, vals, [bi])
                    M.rewrites.append({"fn": fn, "line": st["l"], "bi": bi, "triggers": site_triggers(fn, bi),
                                       "targets": tgt_ids, "access": acc})
        for t in E.touches(fn):
            tt = dict(t)
            tt["fn"] = fn
            tt["triggers"] = site_triggers(fn, t["bi"])
            M.main_touches.append(tt)
    # ---- static creation
    newreach = P.reachable([WORKLOAD_NEW], skip)
    M.static_types = unsize_work_types(P, newreach)
    M.static_types_by_crate = defaultdict(set)
    for fk in newreach:
        for ty in unsize_work_types(P, [fk]):
            M.static_types_by_crate[crate_of(fk)].add(ty)
    return M


def reff(M, j):
    """effective read access of a job type: declared unless Unknown, else union of rewrites on its id"""
    if not j["rdecl"]["unknown"]:
        return j["rdecl"], []
    items = set()
    srcs = []
    al = False
    ks = {}
    unc = None
    for rw in M.rewrites:
        if rw["targets"] & j["ids"]:
            items |= rw["access"]["items"]
            unc = set(rw["access"]["uncond"]) if unc is None else (unc & rw["access"]["uncond"])
            al = al or rw["access"]["all"]
            for kk, vv in rw["access"]["key_slots"].items():
                ks.setdefault(kk, set()).update(vv)
            srcs.append(rw)
    return {"unknown": False, "none": not items, "all": al, "items": items, "uncond": unc or set(), "unrecognised": [], "key_slots": ks}, srcs


# ====================================================================== forced-order graph and rules
def fmt_id(i):
    return f"{i[0]}({i[1]})"


def jname(j):
    return j["self"]


class Graph:
    def __init__(self, M, E, fe_crate, exc=None):
        exc = exc or {}
        cover = {(e["reader"], e["variant"]): e for e in exc.get("covering_specific", [])}
        self.cover_used = set()
        self.cover_failed = []
        self.M = M
        self.fe = fe_crate
        crates = {"fontir", "fontbe", fe_crate}
        self.jobs = {k: j for k, j in M.jobs.items() if j["crate"] in crates}
        self.producers = defaultdict(set)
        for k, j in self.jobs.items():
            for i in j["ids"] | j["also"]:
                self.producers[i].add(k)
        self.full = defaultdict(set)      # P -> {W}
        self.partial = defaultdict(set)
        self.why = {}
        self.reff = {}
        self.no_producer = []
        for k, j in self.jobs.items():
            acc, srcs = reff(M, j)
            self.reff[k] = acc
            for (i, kind) in acc["items"]:
                ps = self.producers.get(i, set())
                if not ps:
                    self.no_producer.append((k, i, kind))
                multi = E.variant_multi(*i)
                for p in ps:
                    if p == k:
                        continue
                    covered = False
                    if kind == "specific" and multi and (j["self"], fmt_id(i)) in cover:
                        e = cover[(j["self"], fmt_id(i))]
                        want = tuple(e["key_slot"].split("."))
                        if want in acc.get("key_slots", {}).get((i, kind), set()):
                            covered = True
                            self.cover_used.add((j["self"], fmt_id(i)))
                        else:
                            self.cover_failed.append((j["self"], fmt_id(i), e["key_slot"]))
                    uncond = (i, kind) in acc["uncond"]
                    if ((kind == "variant" or not multi) and uncond) or covered:
                        self.full[p].add(k)
                        self.why[(p, k)] = f"{jname(j)} depends on {kind}({fmt_id(i)}) completed by {jname(self.jobs[p])}"
                    else:
                        self.partial[p].add(k)
            if acc["all"]:
                for p in self.jobs:
                    if p != k:
                        self.full[p].add(k)
                        self.why[(p, k)] = f"{jname(j)} has Access::All"
            # trigger edges: an Unknown-initial job cannot launch before handle_success(S) rewrote it
            if j["rdecl"]["unknown"] and srcs:
                # every (rewrite site, trigger) is an alternative; the job launches after at least one
                # of them ran, so a trigger edge is forced only from producers common to ALL alternatives.
                common = None
                for rw in srcs:
                    for tr in rw["triggers"]:
                        if tr is None or tr == "ROOT":
                            ps = set()
                        else:
                            ps = set(self.producers.get(tr, set()))
                        common = ps if common is None else (common & ps)
                for p in (common or set()):
                    if p != k:
                        self.full[p].add(k)
                        self.why.setdefault((p, k), f"{jname(j)} is Unknown until handle_success({jname(self.jobs[p])}) rewrites it")
        # transitive closure over full edges
        self.anc = {}
        rev = defaultdict(set)
        for p, ws in self.full.items():
            for w in ws:
                rev[w].add(p)
        self.rev = rev
        for k in self.jobs:
            seen = set()
            dq = deque(rev[k])
            while dq:
                x = dq.popleft()
                if x in seen:
                    continue
                seen.add(x)
                dq.extend(rev[x])
            self.anc[k] = seen

    def before(self, a, b):
        """a is forced to complete before b launches"""
        return a in self.anc[b]

    def path(self, a, b):
        """a full-edge path a -> ... -> b (for evidence)"""
        par = {a: None}
        dq = deque([a])
        while dq:
            x = dq.popleft()
            if x == b:
                out = []
                while x is not None:
                    out.append(x)
                    x = par[x]
                return list(reversed(out))
            for w in self.full.get(x, ()):
                if w not in par:
                    par[w] = x
                    dq.append(w)
        return None


def run_rules(E, M, tables, tier="quick"):
    """returns (findings, obligations, samples, stats)"""
    P = E.P
    findings = []
    obl = []
    samples = []
    stats = {}

    def loc(fn, line):
        return P.site_loc(fn, line)

    def add(rule, key, msg, where, detail=None):
        findings.append({"rule": rule, "key": key, "msg": msg, "loc": where, "detail": detail or {}})

    exc = tables.get("e1_exceptions", {})
    # ---------------- R0: unresolved touches / unrecognised access forms are fail-closed
    for jk, j in M.jobs.items():
        for t in j["escapes"]:
            add("R0-unresolved-touch", f"R0|{j['self']}|{t['ctx']}.{t['field']}|{t['op']}",
                f"{j['self']}: reference to slot {t['ctx']}.{t['field']} flows somewhere other than the ContextItem/ContextMap API ({t['op']}); counted as read+write",
                loc(t["fn"], t["line"]))
        for kind in ("rdecl", "wdecl"):
            for u in j[kind]["unrecognised"]:
                add("R0-unrecognised-access", f"R0|{j['self']}|{kind}", f"{j['self']}: {u}", j["impl"])
    # every Work type is created somewhere
    created = set(M.static_types)
    for d in M.dynamic:
        created |= d["types"]
    for jk, j in M.jobs.items():
        ok = j["self"] in created
        obl.append({"rule": "R0-created", "inst": j["self"], "ok": ok})
        if not ok:
            add("R0-never-created", f"R0|never-created|{j['self']}", f"{j['self']} implements Work but no creation site is reachable from Workload::new / handle_success", j["impl"])

    # ---------------- R10: a singleton job type is created at exactly one site and not in a loop
    sites_by_type = defaultdict(list)
    nb = P.bodies[WORKLOAD_NEW]
    ncfg = CFG(nb)
    ndefs = def_sites(nb)

    def skip_exec(a, b):
        return P.is_work_exec_impl(b)

    addk = {"fontc::workload::{impl#0}::add", "fontc::workload::{impl#0}::add_skippable_feature_work"}
    for site in P.iter_sites(WORKLOAD_NEW):
        if site["kind"] != "call" or not (set(site["targets"]) & addk) or nb["blocks"][site["bi"]]["cl"]:
            continue
        t = site["term"]
        l = operand_local(t["a"][1])
        _, recs = backward_slice(nb, [l], ndefs)
        in_loop = site["bi"] in {b for nx in ncfg.succ[site["bi"]] for b in ncfg.reachable_from(nx)}
        for d in recs:
            if d[0] != "call":
                continue
            k = d[3]["f"].get("k")
            if not k:
                continue
            tgs, _ = P.resolve_targets(k)
            for tg in tgs:
                if tg in P.bodies and crate_of(tg) not in ("core", "alloc", "std"):
                    for ty in unsize_work_types(P, P.reachable([tg], skip_exec)):
                        sites_by_type[ty].append((site["line"], in_loop, crate_of(tg)))
    for jk, j in M.jobs.items():
        if any(E.variant_multi(*i) for i in j["ids"]):
            continue
        ss = [x for x in sites_by_type.get(j["self"], [])]
        dyn = [d for d in M.dynamic if j["self"] in d["types"]]
        ok = len({x[0] for x in ss}) + len(dyn) == 1 and not any(x[1] for x in ss)
        obl.append({"rule": "R10", "inst": f"singleton job {j['self']} is created at exactly one site (lines {sorted({x[0] for x in ss})})", "ok": ok})
        if not ok:
            add("R10", f"R10|{j['self']}", f"singleton job {j['self']} is created at {len({x[0] for x in ss}) + len(dyn)} sites (Workload::new lines {sorted({x[0] for x in ss})}, in a loop: {any(x[1] for x in ss)}, dynamic: {len(dyn)}): the job count and the pending counter are inflated and the build ends in 'unable to proceed' / 'Multiple completions'",
                loc(WORKLOAD_NEW, ss[0][0] if ss else 1))

    # ---------------- R1: write containment (variant level)
    for jk, j in M.jobs.items():
        wd = {i for (i, k) in j["wdecl"]["items"]}
        for sk, ts in j["writes"].items():
            sid = M.slots[sk]["id"]
            ok = sid in wd or j["wdecl"]["all"]
            obl.append({"rule": "R1", "inst": f"{j['self']} writes {sk[0]}.{sk[1]}", "ok": ok})
            if not ok:
                t = ts[0]
                add("R1", f"R1|{j['self']}|{fmt_id(sid)}",
                    f"{j['self']} writes slot {sk[0]}.{sk[1]} ({fmt_id(sid)}) which its write_access does not declare -> 'Illegal write' panic on that path",
                    loc(t["fn"], t["line"]), {"path": P.path_to(j["reach"], t["fn"])})
        # cross-context writes: a BE job cannot write FE slots (read-only view) and vice versa
        for sk in j["writes"]:
            if sk[0] != j["ctx"]:
                t = j["writes"][sk][0]
                add("R1", f"R1|{j['self']}|cross|{sk[0]}.{sk[1]}", f"{j['self']} ({j['ctx']} job) writes {sk[0]} slot {sk[1]}", loc(t["fn"], t["line"]))

    # ---------------- R4: Unknown/rewrite pairing
    unknown_jobs = [j for j in M.jobs.values() if j["rdecl"]["unknown"]]
    stats["unknown_jobs"] = len(unknown_jobs)
    for j in unknown_jobs:
        rws = [rw for rw in M.rewrites if rw["targets"] & j["ids"]]
        ok = len(rws) > 0
        obl.append({"rule": "R4", "inst": f"{j['self']} Unknown has rewrite", "ok": ok})
        if not ok:
            add("R4", f"R4|no-rewrite|{j['self']}", f"{j['self']}::read_access is Access::Unknown but no assignment to Job.read_access targets {sorted(map(fmt_id, j['ids']))}: the job can never launch -> 'unable to proceed'", j["impl"])
    for rw in M.rewrites:
        tj = [j for j in M.jobs.values() if rw["targets"] & j["ids"]]
        ok = bool(tj) and all(j["rdecl"]["unknown"] for j in tj) and not rw["access"]["unknown"] and len(rw["targets"]) == 1
        obl.append({"rule": "R4", "inst": f"rewrite at {loc(rw['fn'], rw['line'])} targets Unknown job", "ok": ok})
        if not ok:
            add("R4", f"R4|bad-rewrite|{sorted(map(fmt_id, rw['targets']))}",
                f"rewrite of Job.read_access targets {sorted(map(fmt_id, rw['targets']))}: not (exactly one) Unknown-initial job, or assigns Unknown", loc(rw["fn"], rw["line"]))
        if any(t is None for t in rw["triggers"]):
            add("R4", f"R4|untriggered-rewrite|{sorted(map(fmt_id, rw['targets']))}", "rewrite site is not guarded by a match on the completed id", loc(rw["fn"], rw["line"]))

    # ---------------- per front-end configuration
    configs = [c for c in FE_CRATES if c not in exc.get("excluded_front_ends", {})]
    stats["configs"] = configs
    pair_count = 0
    nontrivial = 0
    inst_exc = {}
    for e in exc.get("instance_level", []):
        for sl in e["slots"]:
            inst_exc[(e["reader"], sl)] = e
    used_exc = set()
    witness_ok = {}
    # witnesses of instance-level exceptions
    for e in exc.get("instance_level", []):
        rj = next((j for j in M.jobs.values() if j["self"] == e["reader"]), None)
        ok = rj is not None
        why = "reader type not found"
        if ok:
            acc, srcs = reff(M, rj)
            have = {(fmt_id(i), kd) for (i, kd) in acc["items"]}
            missing = [w for w in e["witness"].get("reff_has", []) if tuple(w) not in have]
            trig = set()
            for rw in srcs:
                trig |= {fmt_id(t) if t not in (None, "ROOT") else "None" for t in rw["triggers"]}
            want_trig = set(e["witness"].get("rewrite_triggers", []))
            ok = not missing and trig == want_trig
            why = f"missing deps {missing}; triggers {sorted(trig)} (expected {sorted(want_trig)})"
        witness_ok[e["reader"]] = ok
        obl.append({"rule": "R2-witness", "inst": f"instance-level exception {e['reader']} x {e['slots']}", "ok": ok})
        if not ok:
            add("R2-witness", f"R2w|{e['reader']}|instance", f"audited instance-level exception for {e['reader']} lost its witness: {why}", e["reader"])
    for fe in configs:
        G = Graph(M, E, fe, exc)
        for (r, v, ksl) in G.cover_failed:
            add("R2-witness", f"R2w|{r}|{v}", f"[{fe}] audited exception 'specific deps of {r} on {v} cover every key it reads' lost its witness: the id operand no longer derives from slot {ksl}", r)
        # writers per slot (actual), in this config
        writers = defaultdict(set)
        for k, j in G.jobs.items():
            for sk in j["writes"]:
                writers[sk].add(k)
        # dynamic job types and their triggers
        dyn_types = {}
        for d in M.dynamic:
            for ty in d["types"]:
                dyn_types.setdefault(ty, set()).update(d["triggers"])
        # ---- R2 / R2'
        for k, j in G.jobs.items():
            rset = {i for (i, kd) in G.reff[k]["items"]}
            for sk, ts in j["reads"].items():
                sid = M.slots[sk]["id"]
                # R2': reads through the job's own context are ACL-checked
                if sk[0] == j["ctx"]:
                    ok = sid in rset or G.reff[k]["all"]
                    # a job may read back what it may write? No: assert_read_access tests read_access only.
                    obl.append({"rule": "R2'", "inst": f"[{fe}] {j['self']} reads own-context {sk[0]}.{sk[1]}", "ok": ok})
                    if not ok:
                        add("R2'", f"R2'|{j['self']}|{fmt_id(sid)}",
                            f"[{fe}] {j['self']} reads {sk[0]}.{sk[1]} ({fmt_id(sid)}) through its own context but read_access does not name it -> 'Illegal read' panic on that path",
                            loc(ts[0]["fn"], ts[0]["line"]), {"path": P.path_to(j["reach"], ts[0]["fn"])})
                for p in writers.get(sk, ()):
                    pj = G.jobs[p]
                    pair_count += 1
                    if p == k:
                        # same job type: own instance (fine) or sibling instance (instance-level)
                        if M.slots[sk]["multi"] and any(E.variant_multi(*i) for i in j["ids"]):
                            e = inst_exc.get((j["self"], f"{sk[0]}.{sk[1]}"))
                            if e and "self" in e.get("writers", []):
                                used_exc.add((j["self"], f"{sk[0]}.{sk[1]}"))
                                continue
                            # reading one's own variant map: only safe for one's own instance
                            add("R2", f"R2|{j['self']}|{fmt_id(sid)}|self", f"[{fe}] {j['self']} reads the multi-instance slot {sk[0]}.{sk[1]} that sibling instances of the same job type write; no order between siblings",
                                loc(ts[0]["fn"], ts[0]["line"]))
                        continue
                    nontrivial += 1
                    ok = G.before(p, k) or G.before(k, p)
                    via = None
                    if ok:
                        via = G.path(p, k) if G.before(p, k) else G.path(k, p)
                    inst = f"[{fe}] reader {j['self']} x slot {sk[0]}.{sk[1]} x writer {pj['self']}"
                    if not ok:
                        e = inst_exc.get((j["self"], f"{sk[0]}.{sk[1]}"))
                        if e and pj["self"] in e.get("writers", []):
                            # the exception covers the audited read sites only: a read of the slot from another function
                            # (e.g. a new look-up of an unrelated glyph) is not covered
                            from common import norm_fn
                            allowed_fns = set(e.get("read_fns", []))
                            extra = sorted({norm_fn(t["fn"]) for t in ts} - allowed_fns) if allowed_fns else []
                            # ... and the audited write sites of that writer only: the argument for GlyphOrderWork is that it
                            # rewrites composites (and creates new names), never a component-less glyph whose backend job may
                            # already be running; a write of the slot from another function is not covered
                            wallowed = e.get("writer_fns", {}).get(f"{pj['self']}|{sk[0]}.{sk[1]}")
                            wextra = sorted({norm_fn(w["fn"]) for w in pj["writes"].get(sk, [])} - set(wallowed)) if wallowed is not None else []
                            if os.environ.get("E1_DEBUG_WRITES"):
                                print("E1-WRITES", pj["self"], sk, sorted({norm_fn(w["fn"]) for w in pj["writes"].get(sk, [])}))
                            if not extra and wextra:
                                w = [w for w in pj["writes"][sk] if norm_fn(w["fn"]) in wextra][0]
                                obl.append({"rule": "R2", "inst": inst + f" (write site {wextra[0]} is not covered by the instance-level exception)", "ok": False})
                                add("R2", f"R2|{j['self']}|{fmt_id(sid)}|{pj['self']}|write:{wextra[0]}",
                                    f"[{fe}] {pj['self']} writes {sk[0]}.{sk[1]} from {wextra[0]}, a site the audited instance-level argument does not cover, and {j['self']} reads that slot with no forced "
                                    f"order for the instances it does not depend on (a backend glyph job of a glyph without components is not ordered after the glyph-order job): the value it reads depends on the interleaving",
                                    loc(w["fn"], w["line"]), {"writer_path": P.path_to(pj["reach"], w["fn"])})
                                continue
                            if not extra:
                                used_exc.add((j["self"], f"{sk[0]}.{sk[1]}"))
                                obl.append({"rule": "R2", "inst": inst + " (instance-level exception, witness checked)", "ok": True})
                                continue
                            ts = [t for t in ts if norm_fn(t["fn"]) in extra]
                    obl.append({"rule": "R2", "inst": inst, "ok": ok})
                    if ok and len(samples) < 12 and via and len(via) > 2:
                        samples.append({"rule": "R2", "reader": j["self"], "slot": f"{sk[0]}.{sk[1]}", "writer": pj["self"],
                                        "forced_path": [G.jobs[x]["self"] for x in via]})
                    if not ok:
                        t = ts[0]
                        add("R2", f"R2|{j['self']}|{fmt_id(sid)}|{pj['self']}",
                            f"[{fe}] {j['self']} reads {sk[0]}.{sk[1]} ({fmt_id(sid)}) which {pj['self']} writes, and no chain of forced dependencies orders the two "
                            f"(reader's effective deps: {sorted(fmt_id(i)+':'+kd for i, kd in G.reff[k]['items'])})",
                            loc(t["fn"], t["line"]),
                            {"reader_path": P.path_to(j["reach"], t["fn"]), "writer_site": loc(pj["writes"][sk][0]["fn"], pj["writes"][sk][0]["line"]),
                             "writer_path": P.path_to(pj["reach"], pj["writes"][sk][0]["fn"])})
            # ---- R5 write-write order
        for sk, ws in writers.items():
            ws = sorted(ws)
            for a in range(len(ws)):
                for b in range(a + 1, len(ws)):
                    pa, pb = ws[a], ws[b]
                    ok = G.before(pa, pb) or G.before(pb, pa)
                    obl.append({"rule": "R5", "inst": f"[{fe}] writers of {sk[0]}.{sk[1]}: {G.jobs[pa]['self']} / {G.jobs[pb]['self']}", "ok": ok})
                    if not ok:
                        add("R5", f"R5|{sk[0]}.{sk[1]}|{G.jobs[pa]['self']}|{G.jobs[pb]['self']}",
                            f"[{fe}] {G.jobs[pa]['self']} and {G.jobs[pb]['self']} both write {sk[0]}.{sk[1]} with no forced order", G.jobs[pa]["impl"])
        # ---- R6 also_completes consistency / dependency without producer
        for k, j in G.jobs.items():
            own = j["ids"] | j["also"]
            for sk, ts in j["writes"].items():
                sid = M.slots[sk]["id"]
                if sid in own:
                    continue
                # re-write of a slot whose own job is an ancestor
                ps = G.producers.get(sid, set())
                ok = bool(ps) and all(G.before(p, k) for p in ps)
                if not ps:
                    # nobody completes this id: fine iff no job *declares* a dependency on it without another guard
                    declarers = [kk for (kk, i, kd) in G.no_producer if i == sid]
                    ok = True
                    for kk in declarers:
                        if kk != k and not G.before(k, kk):
                            ok = False
                            add("R6", f"R6|no-producer|{fmt_id(sid)}|{G.jobs[kk]['self']}",
                                f"[{fe}] {G.jobs[kk]['self']} depends on {fmt_id(sid)} which no inserted job completes (written by {j['self']} without also_completes); the dependency is trivially fulfilled and nothing else orders the two",
                                G.jobs[kk]["impl"])
                obl.append({"rule": "R6", "inst": f"[{fe}] {j['self']} writes foreign slot {sk[0]}.{sk[1]}", "ok": ok})
                if not ok and ps:
                    add("R6", f"R6|{j['self']}|{fmt_id(sid)}", f"[{fe}] {j['self']} writes {sk[0]}.{sk[1]} whose id it neither owns nor also_completes, and its owner is not an ancestor", loc(ts[0]["fn"], ts[0]["line"]))
        # ---- R10/R11 each id completes exactly once ('Multiple completions' / inflated counters -> 'unable to proceed')
        for i, ps in sorted(G.producers.items()):
            owners = [p for p in ps if i in G.jobs[p]["ids"]]
            alsos = [p for p in ps if i in G.jobs[p]["also"]]
            ok = len(owners) + len(alsos) == 1
            obl.append({"rule": "R11", "inst": f"[{fe}] id {fmt_id(i)} is completed by exactly one job type ({[jname(G.jobs[p]) for p in ps]})", "ok": ok})
            if not ok:
                add("R11", f"R11|{fmt_id(i)}", f"[{fe}] id {fmt_id(i)} is completed by more than one job type (own id of {[jname(G.jobs[p]) for p in owners]}, also_completes of {[jname(G.jobs[p]) for p in alsos]}): the second completion panics with 'Multiple completions' or the inflated pending counter blocks dependents forever",
                    G.jobs[sorted(ps)[0]]["impl"])
        # ---- R3 dynamic-job guard
        for d in M.dynamic:
            for ty in d["types"]:
                dj = next((j for j in G.jobs.values() if j["self"] == ty), None)
                if dj is None:
                    continue
                dk = next(k for k, j in G.jobs.items() if j is dj)
                vids = dj["ids"] | dj["also"]
                vslots = {sk for sk, sv in M.slots.items() if sv["id"] in vids}
                for trig in d["triggers"]:
                    if trig is None:
                        add("R3", f"R3|untriggered|{ty}", f"dynamic creation of {ty} is not guarded by a match on the completed id", loc(d["fn"], d["line"]))
                        continue
                    guarded = {}

                    def is_guarded(tk, depth=0):
                        if tk in guarded:
                            return guarded[tk]
                        guarded[tk] = False
                        tj = G.jobs[tk]
                        acc = G.reff[tk]
                        res = False
                        # (a) Unknown-initial, rewritten under the same trigger
                        if tj["rdecl"]["unknown"]:
                            rws = [rw for rw in M.rewrites if rw["targets"] & tj["ids"]]
                            if rws and all(trig in rw["triggers"] and len(rw["triggers"]) == 1 for rw in rws):
                                res = True
                        # (b) Specific(S) on the singleton trigger id
                        if not res and (trig, "specific") in acc["items"] and not E.variant_multi(*trig):
                            res = True
                        # (c) full edge from a guarded job whose own effective access names the dynamic variant
                        if not res and depth < 6:
                            for u in G.rev.get(tk, ()):
                                if u == tk:
                                    continue
                                uacc = G.reff[u]
                                if any(i in vids for (i, kd) in uacc["items"]) and is_guarded(u, depth + 1):
                                    res = True
                                    break
                        # (d) the dynamic job type itself (its instances are what is being created)
                        guarded[tk] = res
                        return res

                    for tk, tj in G.jobs.items():
                        if tk == dk:
                            continue
                        names = any(i in vids for (i, kd) in G.reff[tk]["items"])
                        reads = any(sk in vslots for sk in tj["reads"])
                        if not (names or reads):
                            continue
                        ok = is_guarded(tk)
                        obl.append({"rule": "R3", "inst": f"[{fe}] {tj['self']} vs dynamic {ty} (trigger {fmt_id(trig)})", "ok": ok})
                        if ok and len([s for s in samples if s["rule"] == "R3"]) < 4:
                            samples.append({"rule": "R3", "reader": tj["self"], "dynamic_job": ty, "trigger": fmt_id(trig), "guarded": True})
                        if not ok:
                            add("R3", f"R3|{tj['self']}|{ty}|{fmt_id(trig)}",
                                f"[{fe}] {tj['self']} depends on / reads {sorted(map(fmt_id, vids))} but instances of {ty} are inserted only in handle_success({fmt_id(trig)}); "
                                f"a Variant dependency can be observed fulfilled before they are inserted (worker decrements the counter before the main thread inserts). "
                                f"Needs Unknown+rewrite under that trigger, specific_instance({fmt_id(trig)}), or a guarded singleton ancestor.",
                                tj["impl"])
        # ---- R8 main-thread reads under a trigger
        for t in M.main_touches:
            sk = (t["ctx"], t["field"])
            sid = M.slots[sk]["id"]
            for trig in t["triggers"]:
                if trig is None or trig == "ROOT":
                    add("R8", f"R8|untriggered|{sk[0]}.{sk[1]}", f"main thread touches {sk[0]}.{sk[1]} in handle_success outside a match on the completed id", loc(t["fn"], t["line"]))
                    continue
                sprod = G.producers.get(trig, set())
                for p in [k for k, j in G.jobs.items() if sk in j["writes"]]:
                    ok = p in sprod or any(G.before(p, s) for s in sprod)
                    # writers that run later and rewrite the slot make the main-thread read racy unless it is the trigger itself
                    if not ok:
                        k8 = f"R8|{sk[0]}.{sk[1]}|{fmt_id(trig)}|{G.jobs[p]['self']}"
                        e8 = next((e for e in exc.get("main_thread_reads", []) if e["key"] == k8), None)
                        if e8 and e8.get("shares_witness_with") in witness_ok and witness_ok[e8["shares_witness_with"]]:
                            obl.append({"rule": "R8", "inst": f"[{fe}] main-thread {t['op']} of {sk[0]}.{sk[1]} under {fmt_id(trig)} vs writer {G.jobs[p]['self']} (audited exception, witness checked)", "ok": True})
                            continue
                    obl.append({"rule": "R8", "inst": f"[{fe}] main-thread {t['op']} of {sk[0]}.{sk[1]} under {fmt_id(trig)} vs writer {G.jobs[p]['self']}", "ok": ok})
                    if not ok:
                        add("R8", f"R8|{sk[0]}.{sk[1]}|{fmt_id(trig)}|{G.jobs[p]['self']}",
                            f"[{fe}] handle_success({fmt_id(trig)}) reads {sk[0]}.{sk[1]} but writer {G.jobs[p]['self']} is not ordered before {fmt_id(trig)}", loc(t["fn"], t["line"]))
        stats[f"jobs[{fe}]"] = len(G.jobs)
        stats[f"full_edges[{fe}]"] = sum(len(v) for v in G.full.values())
        stats[f"no_producer[{fe}]"] = sorted({f"{G.jobs[k]['self']}->{fmt_id(i)}" for k, i, kd in G.no_producer})
    stats["pairs"] = pair_count
    stats["nontrivial_pairs"] = nontrivial
    stats["unused_exceptions"] = sorted(f"{a}|{b}" for (a, b) in set(inst_exc) - used_exc)
    return findings, obl, samples, stats


# ====================================================================== R7: counter-before-send
def rule_r7(E, config_label="default"):
    P = E.P
    findings, obl = [], []
    cands = [k for k in P.bodies if k.startswith(WORKLOAD_EXEC + "::{closure")]
    worker = []
    for k in cands:
        for site in P.iter_sites(k):
            if site["kind"] == "call" and any("crossbeam_channel" in t and t.endswith("::send") for t in site["targets"]):
                worker.append(k)
                break
    if len(worker) != 1:
        raise E1Error(f"R7: expected exactly one worker closure sending completions, found {worker}")
    k = worker[0]
    body = P.bodies[k]
    cfg = CFG(body)
    send_b, sub_b, catch_b, isok = [], [], [], []
    for site in P.iter_sites(k):
        if site["kind"] != "call":
            continue
        if body["blocks"][site["bi"]]["cl"]:
            continue
        tg = site["targets"]
        if any("crossbeam_channel" in t and t.endswith("::send") for t in tg):
            send_b.append(site["bi"])
        if any(t.endswith("::fetch_sub") and "atomic" in t for t in tg):
            sub_b.append(site["bi"])
        if any(t.endswith("panic::catch_unwind") or t.endswith("::catch_unwind") for t in tg):
            catch_b.append(site["bi"])
        if any(t.endswith("::is_ok") and "result" in t for t in tg):
            isok.append(site)
    ok_i = len(sub_b) >= 1 and len(send_b) >= 1 and len(catch_b) >= 1
    obl.append({"rule": "R7", "inst": f"[{config_label}] worker closure has catch_unwind, fetch_sub, send", "ok": ok_i})
    if not ok_i:
        findings.append({"rule": "R7", "key": "R7|shape", "msg": f"[{config_label}] worker closure lacks catch_unwind/fetch_sub/send (catch={catch_b}, sub={sub_b}, send={send_b}): completion counters are not maintained by the worker", "loc": P.body_file_line(k), "detail": {}})
        return findings, obl
    # (ii) no decrement after the send
    for sb in send_b:
        after = set()
        for nx in cfg.succ[sb]:
            after |= cfg.reachable_from(nx)
        bad = [b for b in sub_b if b in after]
        ok = not bad
        obl.append({"rule": "R7", "inst": f"[{config_label}] no fetch_sub reachable after send", "ok": ok})
        if not ok:
            ln = body["blocks"][bad[0]]["t"]["l"]
            findings.append({"rule": "R7", "key": "R7|sub-after-send", "msg": f"[{config_label}] a pending-counter decrement is reachable after the completion is sent: the main loop can observe 'nothing launchable, nothing running' and fail a valid build with UnableToProceed", "loc": P.site_loc(k, ln), "detail": {}})
    # (iii) decrement only after the job ran
    for b in sub_b:
        ok = any(cfg.dominates(c, b) for c in catch_b)
        obl.append({"rule": "R7", "inst": f"[{config_label}] catch_unwind(exec) dominates fetch_sub", "ok": ok})
        if not ok:
            findings.append({"rule": "R7", "key": "R7|sub-before-exec", "msg": f"[{config_label}] counter decremented on a path that has not executed the job", "loc": P.site_loc(k, body["blocks"][b]["t"]["l"]), "detail": {}})
    # (iv) decrement only on success
    ok_targets = []
    for site in isok:
        t = site["term"]
        dl = t["d"][0]
        nb = t["to"][0] if t["to"] else None
        if nb is None:
            continue
        sw = body["blocks"][nb]["t"]
        if sw["t"] == "sw" and operand_local(sw["o"]) == dl and sw["v"] == ["0"]:
            ok_targets.append(sw["to"][-1])
    for b in sub_b:
        ok = any(cfg.dominates(tb, b) for tb in ok_targets)
        obl.append({"rule": "R7", "inst": f"[{config_label}] fetch_sub is guarded by result.is_ok()", "ok": ok})
        if not ok:
            findings.append({"rule": "R7", "key": "R7|sub-on-error", "msg": f"[{config_label}] counter decremented without the result.is_ok() guard: dependents of a failed job can launch", "loc": P.site_loc(k, body["blocks"][b]["t"]["l"]), "detail": {}})
    # every send path is after the decrement loop: the send must not be reachable while skipping the is_ok test
    for sb in send_b:
        ok = all(any(cfg.dominates(site["bi"], sb) for site in isok) for _ in [0])
        obl.append({"rule": "R7", "inst": f"[{config_label}] is_ok test dominates send", "ok": ok})
        if not ok:
            findings.append({"rule": "R7", "key": "R7|send-skips-counters", "msg": f"[{config_label}] a completion can be sent on a path that skipped the counter update", "loc": P.site_loc(k, body["blocks"][sb]["t"]["l"]), "detail": {}})
    return findings, obl


# ====================================================================== R9: must-set vs panicking get
def error_blocks(body):
    """blocks that put an Err into the return place (explicit Err(..) or the `?` residual)"""
    out = set()
    for bi, blk in enumerate(body["blocks"]):
        for st in blk["s"]:
            if st["d"] == [0]:
                rv = st["rv"]
                if rv.get("r") == "agg" and rv.get("adt") == "core::result::Result" and rv.get("v") == "Err":
                    out.add(bi)
        t = blk["t"]
        if t["t"] == "call" and t["d"] == [0]:
            k = t["f"].get("k")
            if k and k["fn"].endswith("FromResidual::from_residual"):
                out.add(bi)
    return out


def infeasible_edges(body):
    """(block, successor) edges that no execution takes: the Continue edge after `Try::branch(Err(..))`
    (the repo writes `Err(e) => return Err(e)?` in a few places)."""
    defs = def_sites(body)
    out = set()
    for bi, blk in enumerate(body["blocks"]):
        t = blk["t"]
        if t["t"] != "call":
            continue
        k = t["f"].get("k")
        if not k or not k["fn"].endswith("Try::branch") or not t["a"] or not t["to"]:
            continue
        l = operand_local(t["a"][0])
        ds = defs.get(l, [])
        if not ds or not all(d[0] == "stmt" and d[3]["rv"].get("r") == "agg" and d[3]["rv"].get("adt") == "core::result::Result"
                             and d[3]["rv"].get("v") == "Err" for d in ds):
            continue
        nb = t["to"][0]
        nblk = body["blocks"][nb]
        sw = nblk["t"]
        if sw["t"] != "sw":
            continue
        dl = operand_local(sw["o"])
        isdisc = any(st["d"] == [dl] and st["rv"].get("r") == "discr" and st["rv"]["p"][0] == t["d"][0] for st in nblk["s"])
        if isdisc and "0" in sw["v"]:
            out.add((nb, sw["to"][sw["v"].index("0")]))
    return out


def pruned_reach(cfg, body, start, avoid):
    inf = infeasible_edges(body)
    seen = {start}
    dq = deque([start])
    while dq:
        x = dq.popleft()
        for y in cfg.succ[x]:
            if y in seen or y in avoid or (x, y) in inf:
                continue
            seen.add(y)
            dq.append(y)
    return seen


class MustSet:
    def __init__(self, E, M):
        self.E, self.M, self.P = E, M, E.P
        self.memo = {}

    def always_sets(self, fn, slot, stack=()):
        """every path from entry to a normal (non-Err) return of fn performs a write of slot"""
        key = (fn, slot)
        if key in self.memo:
            return self.memo[key]
        if fn in stack or fn not in self.P.bodies:
            return False
        self.memo[key] = False
        body = self.P.bodies[fn]
        cfg = CFG(body)
        wblocks = set()
        for t in self.E.touches(fn):
            if (t["ctx"], t["field"]) == slot and t["op"] in self.E.WRITE_OPS:
                wblocks.add(t["bi"])
        for site in self.P.iter_sites(fn):
            if site["kind"] != "call" or site["virt"] or len(site["targets"]) != 1:
                continue
            tg = site["targets"][0]
            if tg in self.P.bodies and not self.P.is_work_exec_impl(tg) and crate_of(tg) not in ("core", "alloc", "std"):
                if self.always_sets(tg, slot, stack + (fn,)):
                    wblocks.add(site["bi"])
        errs = error_blocks(body)
        exits = [e for e in cfg.exits() if e not in errs]
        # remove error blocks from consideration: paths through them end in Err
        avoid = wblocks | errs
        seen = pruned_reach(cfg, body, 0, avoid) if 0 not in avoid else set()
        res = not any(e in seen for e in exits)
        if 0 in wblocks:
            res = True
        self.memo[key] = res
        return res

    def witness_path(self, fn, slot):
        body = self.P.bodies[fn]
        cfg = CFG(body)
        wblocks = {t["bi"] for t in self.E.touches(fn) if (t["ctx"], t["field"]) == slot and t["op"] in self.E.WRITE_OPS}
        for site in self.P.iter_sites(fn):
            if site["kind"] == "call" and not site["virt"] and len(site["targets"]) == 1 and self.memo.get((site["targets"][0], slot)):
                wblocks.add(site["bi"])
        errs = error_blocks(body)
        inf = infeasible_edges(body)
        par = {0: None}
        dq = deque([0])
        while dq:
            x = dq.popleft()
            if body["blocks"][x]["t"]["t"] == "ret":
                out = []
                while x is not None:
                    out.append(x)
                    x = par[x]
                lines = []
                for b in reversed(out):
                    ln = body["blocks"][b]["t"].get("l")
                    if ln and ln > 1 and (not lines or lines[-1] != ln):
                        lines.append(ln)
                return lines
            for y in cfg.succ[x]:
                if y not in par and y not in wblocks and y not in errs and (x, y) not in inf:
                    par[y] = x
                    dq.append(y)
        return None


def rule_r9(E, M, tables, skippable_ids=()):
    P = E.P
    findings, obl, samples = [], [], []
    ms = MustSet(E, M)
    exc = tables.get("e1_exceptions", {}).get("guarded_get", [])
    exc_keys = {(e["reader_fn"], e["slot"]): e for e in exc}
    for e in exc:
        if e["slot"] == "*":
            for sk in M.slots:
                exc_keys.setdefault((e["reader_fn"], f"{sk[0]}.{sk[1]}"), e)
    must = {}
    for sk, sv in M.slots.items():
        if sv["kind"] != "item":
            continue
        owners = [j for j in M.jobs.values() if sv["id"] in (j["ids"] | j["also"])]
        per = {}
        for j in owners:
            per[j["self"]] = ms.always_sets(j["methods"]["exec"], sk)
        must[sk] = per
    # map slots: a multi-instance producer must store its own instance on every Ok path when someone get()s instances
    map_getters = defaultdict(list)
    for j in M.jobs.values():
        for sk, ts in j["reads"].items():
            if M.slots[sk]["kind"] == "map" and any(t["op"] == "get" for t in ts):
                map_getters[sk].append(j["self"])
    for t in M.main_touches:
        sk = (t["ctx"], t["field"])
        if M.slots[sk]["kind"] == "map" and t["op"] == "get":
            map_getters[sk].append("main-thread handle_success")
    for sk, getters in sorted(map_getters.items()):
        sv = M.slots[sk]
        for j in M.jobs.values():
            if sv["id"] not in (j["ids"] | j["also"]):
                continue
            if skippable_ids and (j["ids"] <= set(skippable_ids)):
                continue
            ok = ms.always_sets(j["methods"]["exec"], sk)
            obl.append({"rule": "R9", "inst": f"{j['self']} stores its own {sk[0]}.{sk[1]} instance on every Ok path (read with get() by {sorted(set(getters))[:3]})", "ok": ok})
            if not ok:
                wp = ms.witness_path(j["methods"]["exec"], sk)
                findings.append({"rule": "R9", "key": f"R9|map|{j['self']}|{sk[0]}.{sk[1]}",
                                 "msg": f"{j['self']}::exec can return Ok without storing its {sk[0]}.{sk[1]} instance (lines {wp}) although its id / also_completes says it completes {fmt_id(sv['id'])} and {sorted(set(getters))[:3]} read instances with the panicking get() -> '... is not available' for inputs taking that path",
                                 "loc": P.body_file_line(j["methods"]["exec"]), "detail": {"producer_exit_path_lines": wp}})
    # readers using the panicking get
    readers = []
    # a dynamically created job exists only if the slot guarding its creation site was present
    created_under = {}
    static = set(M.static_types)
    for d in M.dynamic:
        for ty in d["types"]:
            if ty not in static:
                created_under.setdefault(ty, []).append(d["guard_slots"])
    for j in M.jobs.values():
        if skippable_ids and (j["ids"] <= set(skippable_ids)):
            continue  # the reader itself is replaced by a no-op in this configuration
        for sk, ts in j["reads"].items():
            for t in ts:
                if t["op"] == "get" and M.slots[sk]["kind"] == "item":
                    readers.append((j["self"], j["crate"], sk, t, j))
    for t in M.main_touches:
        sk = (t["ctx"], t["field"])
        if t["op"] == "get" and M.slots[sk]["kind"] == "item":
            readers.append(("main-thread handle_success", "fontc", sk, t, None))
    seen = set()
    for rname, rcrate, sk, t, j in readers:
        for owner, ok in must[sk].items():
            ocrate = owner.split("::", 1)[0]
            if rcrate in FE_CRATES and ocrate in FE_CRATES and rcrate != ocrate:
                continue
            key = (rname, sk, owner, t["fn"])
            if key in seen:
                continue
            seen.add(key)
            skip = M.slots[sk]["id"] in skippable_ids
            good = ok and not skip
            if not good and j is not None and j["self"] in created_under and all(sk in g for g in created_under[j["self"]]):
                obl.append({"rule": "R9", "inst": f"{rname} get() of {sk[0]}.{sk[1]}: the job is only created when try_get({sk[0]}.{sk[1]}) is Some", "ok": True})
                continue
            inst = f"{rname} get() of {sk[0]}.{sk[1]} in {t['fn']} vs producer {owner}"
            if not good:
                e = exc_keys.get((t["fn"], f"{sk[0]}.{sk[1]}"))
                if e:
                    w = check_guard_witness(E, e)
                    obl.append({"rule": "R9", "inst": inst + " (guarded-get exception, witness checked)", "ok": w})
                    if not w:
                        findings.append({"rule": "R9-witness", "key": f"R9w|{t['fn']}|{sk[0]}.{sk[1]}", "msg": f"audited guarded-get exception for {t['fn']} lost its witness ({e['witness']})", "loc": P.site_loc(t["fn"], t["line"]), "detail": {}})
                    continue
            obl.append({"rule": "R9", "inst": inst, "ok": good})
            if good and len(samples) < 4:
                samples.append({"rule": "R9", "reader": rname, "slot": f"{sk[0]}.{sk[1]}", "producer": owner, "must_set": True})
            if not good:
                oj = next(x for x in M.jobs.values() if x["self"] == owner)
                wp = ms.witness_path(oj["methods"]["exec"], sk) if not ok else None
                why = (f"{owner}::exec can return Ok without writing it (lines {wp})" if not ok
                       else f"{owner} is replaced by a no-op when features are skipped")
                findings.append({"rule": "R9", "key": f"R9|{rname}|{sk[0]}.{sk[1]}|{owner}",
                                 "msg": f"{rname} reads {sk[0]}.{sk[1]} with the panicking get() but {why} -> '... is not available' panic for inputs taking that path",
                                 "loc": P.site_loc(t["fn"], t["line"]), "detail": {"producer_exit_path_lines": wp}})
    return findings, obl, samples, must


def check_guard_witness(E, e):
    """witness 'dominated-by-call-true-edge': every call of `callee` in `fn` is dominated by the true edge
    of a call to `guard` whose argument local is the same as the callee's."""
    P = E.P
    w = e["witness"]
    fn = w["fn"]
    if fn not in P.bodies:
        return False
    body = P.bodies[fn]
    cfg = CFG(body)
    guards = []
    calls = []
    for site in P.iter_sites(fn):
        if site["kind"] != "call" or body["blocks"][site["bi"]]["cl"]:
            continue
        if w["guard"] in site["targets"]:
            t = site["term"]
            nb = t["to"][0] if t["to"] else None
            if nb is None:
                continue
            nblk = body["blocks"][nb]
            sw = nblk["t"]
            if sw["t"] == "sw" and sw["v"] == ["0"]:
                swl = operand_local(sw["o"])
                true_target = None
                if swl == t["d"][0]:
                    true_target = sw["to"][-1]
                else:
                    for st in nblk["s"]:
                        if st["d"] == [swl] and st["rv"].get("r") == "un" and st["rv"].get("op") == "Not" \
                                and operand_local(st["rv"]["o"][0]) == t["d"][0]:
                            true_target = sw["to"][0]
                if true_target is not None:
                    guards.append((true_target, arg_roots(body, t["a"][w["guard_arg"]])))
        if w["callee"] in site["targets"]:
            calls.append((site["bi"], arg_roots(body, site["term"]["a"][w["callee_arg"]])))
    if not calls or not guards:
        return False
    for cb, croots in calls:
        if not any(cfg.dominates(gb, cb) and (groots & croots) for gb, groots in guards):
            return False
    return True


def arg_roots(body, op):
    l = operand_local(op)
    if l is None:
        return set()
    s, _ = backward_slice(body, [l], None, through_calls=True)
    # roots = named user variables / parameters in the slice (temporaries differ per call site)
    return {x for x in s if str(x) in body["names"] or x <= body["argc"]}


def rule_r8b(E, M):
    """context touches outside any job and outside handle_success: must happen after Workload::exec returned"""
    P = E.P
    findings, obl = [], []
    attributed = set()
    for j in M.jobs.values():
        attributed |= set(j["reach"])
    attributed |= set(M.fn_trig)

    def skip(a, b):
        return P.is_work_exec_impl(b)

    reaches_exec = {}

    def call_reaches_exec(tg):
        if tg not in reaches_exec:
            reaches_exec[tg] = tg in P.bodies and WORKLOAD_EXEC in P.reachable([tg], skip)
        return reaches_exec[tg]

    def dominated_by_exec_call(fn, bi):
        body = P.bodies[fn]
        cfg = CFG(body)
        for site in P.iter_sites(fn):
            if site["kind"] == "call" and any(call_reaches_exec(t) for t in site["targets"]):
                # the call's normal successor dominates the touch
                for nb in site["term"]["to"]:
                    if cfg.dominates(nb, bi):
                        return True
        return False

    rev = P.rev_edges()
    for k in sorted(P.bodies):
        if k in attributed or E.is_context_plumbing(k):
            continue
        for t in E.touches(k):
            ok = dominated_by_exec_call(k, t["bi"])
            if not ok:
                callers = [c for c in rev.get(k, ()) if c in P.bodies]
                if not callers:
                    obl.append({"rule": "R8b", "inst": f"{k} touches {t['ctx']}.{t['field']} but has no caller (dead helper)", "ok": True})
                    continue
                ok = True
                for c in callers:
                    for site in P.iter_sites(c):
                        if site["kind"] == "call" and k in site["targets"]:
                            if not dominated_by_exec_call(c, site["bi"]):
                                ok = False
            obl.append({"rule": "R8b", "inst": f"main-thread {t['op']} of {t['ctx']}.{t['field']} in {k} happens after Workload::exec returned", "ok": ok})
            if not ok:
                findings.append({"rule": "R8b", "key": f"R8b|{k}|{t['ctx']}.{t['field']}|{t['op']}",
                                 "msg": f"{k} touches {t['ctx']}.{t['field']} ({t['op']}) outside any job and not after Workload::exec returned: unordered with the jobs that write it",
                                 "loc": P.site_loc(k, t["line"]), "detail": {}})
    return findings, obl


def skippable_ids(E, M):
    """ids whose producer is replaced by a no-op when features are skipped: jobs passed to
    Workload::add_skippable_feature_work inside Workload::new"""
    P = E.P
    key = "fontc::workload::{impl#0}::add_skippable_feature_work"
    body = P.bodies[WORKLOAD_NEW]
    defs = def_sites(body)

    def skip(a, b):
        return P.is_work_exec_impl(b)

    out = set()
    for site in P.iter_sites(WORKLOAD_NEW):
        if site["kind"] == "call" and key in site["targets"]:
            l = operand_local(site["term"]["a"][1])
            _, recs = backward_slice(body, [l], defs)
            for d in recs:
                if d[0] != "call":
                    continue
                k = d[3]["f"].get("k")
                if not k:
                    continue
                tgs, _ = P.resolve_targets(k)
                for tg in tgs:
                    if tg in P.bodies and crate_of(tg) not in ("core", "alloc", "std"):
                        for ty in unsize_work_types(P, P.reachable([tg], skip)):
                            for j in M.jobs.values():
                                if j["self"] == ty:
                                    out |= j["ids"] | j["also"]
    return out


# ====================================================================== R12: AnyAccess conversions preserve the access kind
def rule_r12(E):
    """AnyContext::for_work converts a job's declared access with AnyAccess::to_fe / to_be before it becomes the ACL of the
    job's context view. Each arm of those conversions must rebuild the same Access/AccessType variant (to_fe may map ids of
    the other domain to None): widening (Variant -> All) hides illegal reads, narrowing makes legal reads panic."""
    P = E.P
    findings, obl = [], []
    fns = [k for k, b in P.bodies.items() if b.get("impl_self") == "fontc::work::AnyAccess" and k.rsplit("::", 1)[1] in ("to_fe", "to_be")]
    if len(fns) != 2:
        raise E1Error(f"AnyAccess::to_fe/to_be not found: {fns}")
    for fn in sorted(fns):
        name = fn.rsplit("::", 1)[1]
        bodies = [fn] + [k for k in P.bodies if k.startswith(fn + "::{closure")]
        n_arms = 0
        for bk in bodies:
            body = P.bodies[bk]
            cfg = CFG(body)
            dom = cfg.dominators()
            for bi, blk in enumerate(body["blocks"]):
                t = blk["t"]
                if t["t"] != "sw" or blk["cl"]:
                    continue
                dl = operand_local(t["o"])
                src = None
                for st in blk["s"]:
                    if st["d"] == [dl] and st["rv"].get("r") == "discr":
                        src = st["rv"]["p"]
                if src is None:
                    continue
                ty = place_type_simple(body, src, P.adts)
                if not ty or not (ty.startswith(ACCESS + "<") or ty.startswith(ACCESS_TYPE + "<")):
                    continue
                adt = P.adts[ACCESS if ty.startswith(ACCESS + "<") else ACCESS_TYPE]
                for v, tg in zip(t["v"], t["to"][:-1]):
                    vname = adt["variants"][int(v)]["name"]
                    n_arms += 1
                    built = set()
                    for b2 in range(cfg.n):
                        if b2 in dom and tg in dom[b2] and not body["blocks"][b2]["cl"]:
                            for st in body["blocks"][b2]["s"]:
                                rv = st["rv"]
                                if rv.get("r") == "agg" and rv.get("adt") in (ACCESS, ACCESS_TYPE):
                                    built.add(rv["v"])
                    allowed = {vname} | ({"None"} if name == "to_fe" else set())
                    if vname == "Set":
                        allowed |= {"Set"}
                    ok = built <= allowed
                    obl.append({"rule": "R12", "inst": f"AnyAccess::{name}: arm {vname} rebuilds {sorted(built) or ['(via collect)']}", "ok": ok})
                    if not ok:
                        findings.append({"rule": "R12", "key": f"R12|{name}|{vname}", "msg": f"AnyAccess::{name} converts {ty.split('<')[0].split('::')[-1]}::{vname} into {sorted(built - allowed)}: the job's context view gets a different access kind than the job declared (a wider one hides illegal reads, a narrower one makes legal reads panic with 'Illegal read')",
                                         "loc": P.site_loc(bk, t["l"]), "detail": {}})
        if n_arms < 6:
            raise E1Error(f"R12: too few Access arms found in {fn} ({n_arms})")
    return findings, obl


def place_type_simple(body, place, adts):
    ty = body["locals"][place[0]]
    cur_variant = None
    for e in place[1:]:
        if e == "*":
            while ty.startswith("&"):
                ty = ty[1:].strip()
                if ty.startswith("mut "):
                    ty = ty[4:]
        elif e.startswith("d:"):
            cur_variant = e[2:]
        elif e.startswith("f:"):
            _, name, adt = e.split(":", 2)
            a = adts.get(adt)
            if not a:
                return None
            v = None
            if cur_variant is not None:
                v = next((x for x in a["variants"] if x["name"] == cur_variant), None)
            elif len(a["variants"]) == 1:
                v = a["variants"][0]
            if v is None:
                return None
            f = next((x for x in v["fields"] if x["name"] == name), None)
            if f is None:
                return None
            ty = f["ty"]
            # generic parameters are not substituted in adt facts: fall back to the local's declared generics
            cur_variant = None
        else:
            return None
    while ty.startswith("&"):
        ty = ty[1:].strip()
        if ty.startswith("mut "):
            ty = ty[4:]
    return ty


def rule_r14(E):
    """A job may be marked complete without having run (Workload::update_be_glyph_work does that for the backend job of a glyph that
    is not exported).  From then on every dependency on that id counts as fulfilled although nothing was produced.  That is only
    sound while nobody needs the product: if a later job re-introduces the same id's subject (GlyphOrderWork synthesizes an exported
    '.notdef' over a non-export one) the fake completion has to be taken back and the job scheduled.  Pairing rule: every function
    other than handle_success / mark_also_completed that calls Workload::complete_one must record the id's subject in a field of
    Workload, and handle_success must consult and clear that field and take entries out of `success` again."""
    P = E.P
    findings, obl = [], []
    co = [k for k, b in P.bodies.items() if b.get("impl_self") == "fontc::workload::Workload" and k.endswith("::complete_one")]
    hs = [k for k, b in P.bodies.items() if b.get("impl_self") == "fontc::workload::Workload" and k.endswith("::handle_success")]
    if len(co) != 1 or len(hs) != 1:
        raise E1Error(f"R14: complete_one / handle_success not found: {co} {hs}")

    def field_uses(fn):
        out = {}
        fam = [fn] + [k for k in P.bodies if k.startswith(fn + "::{closure")]
        for k in fam:
            for blk in P.bodies[k]["blocks"]:
                for st in blk["s"]:
                    rv = st["rv"]
                    pls = [rv.get("p")] + [o.get("m") or o.get("c") for o in rv.get("o", [])]
                    for pl in pls:
                        for e in (pl or []):
                            if isinstance(e, str) and e.startswith("f:") and e.endswith(":fontc::workload::Workload"):
                                out.setdefault(e.split(":")[1], set()).add(rv.get("bk") or "use")
        return out

    hs_uses = field_uses(hs[0])
    n = 0
    for key, b in sorted(P.bodies.items()):
        if b.get("impl_self") != "fontc::workload::Workload" or key in (hs[0],) or key.endswith(("::mark_also_completed", "::complete_one")):
            continue
        if not any(s["kind"] == "call" and co[0] in s["targets"] for s in P.iter_sites(key)):
            continue
        n += 1
        mine = {f for f, kinds in field_uses(key).items() if "mut" in kinds} - {"jobs_pending", "success", "count_pending", "also_completes", "job_count", "timer"}
        paired = sorted(f for f in mine if "mut" in hs_uses.get(f, ()))
        reopens = "success" in hs_uses and "mut" in hs_uses["success"]
        ok = bool(paired) and reopens
        obl.append({"rule": "R14", "inst": f"{key.rsplit('::', 1)[-1]} completes an id without running its job and records it ({paired or 'nowhere'}); handle_success re-opens recorded ids", "ok": ok})
        if not ok:
            findings.append({"rule": "R14", "key": f"R14|{key.rsplit('::', 1)[-1]}", "msg": f"{key} marks a job complete without running it (complete_one), but handle_success never takes such a completion back"
                             f"{'' if paired else ' (the skipped ids are not even recorded)'}: if a later job re-introduces the subject of that id (GlyphOrderWork synthesizes an exported glyph under "
                             f"the name of a non-export one) every dependency on it is already 'fulfilled' and its readers fail with 'is not available'", "loc": P.body_file_line(key), "detail": {}})
    if n < 1:
        raise E1Error("R14: no completion-without-execution site found (update_be_glyph_work changed?)")
    return findings, obl
