"""Machine-checked witnesses shared by the audited tables: a recorded reason that refers to code elsewhere
('bounded by the fallback in F', 'sorted in G') is re-checked structurally on every run."""


def fn_and_closures(P, fn):
    return [fn] + [k for k in P.bodies if k.startswith(fn + "::{closure")]


def check_shape(P, w):
    """w = {kind: 'W-shape', fn, must_call: [suffix..], must_not_call: [suffix..], float_consts: [..], int_consts: [..], reached_from: fn}"""
    fn = w["fn"]
    if fn not in P.bodies:
        return False, f"{fn} not found"
    fns = fn_and_closures(P, fn)
    # include same-crate helpers the function delegates to (two levels), so that moving the test into a helper is not an alarm
    crate = fn.split("::", 1)[0] + "::"
    frontier = list(fns)
    for _ in range(2):
        nxt = []
        for f in frontier:
            for s in P.iter_sites(f):
                if s["kind"] in ("call", "closure", "fnref"):
                    for tg in s["targets"]:
                        if tg in P.bodies and tg.startswith(crate) and tg not in fns and P.bodies[tg].get("dk") in ("Fn", "AssocFn", "Closure"):
                            if not tg.endswith(("::clone", "::fmt", "::eq", "::default", "::hash")):
                                for x in fn_and_closures(P, tg):
                                    if x not in fns:
                                        fns.append(x)
                                        nxt.append(x)
        frontier = nxt
    called = set()
    floats, ints = set(), set()
    for f in fns:
        for s in P.iter_sites(f):
            if s["kind"] in ("call", "fnref"):
                called |= set(s["targets"])
                if s["info"]:
                    called.add(s["info"]["fn"])
        b = P.bodies[f]
        for blk in b["blocks"]:
            for st in blk["s"]:
                for o in st["rv"].get("o", []):
                    k = o.get("k", {})
                    if "float" in k:
                        floats.add(float(k["float"]))
                    if "int" in k:
                        ints.add(int(k["int"]))
            t = blk["t"]
            if t["t"] == "call":
                for o in t["a"]:
                    k = o.get("k", {})
                    if "float" in k:
                        floats.add(float(k["float"]))
                    if "int" in k:
                        ints.add(int(k["int"]))
        # constants hidden in promoted bodies / range consts
        for ck in [k for k in P.bodies if k.startswith(f + "#promoted")]:
            for blk in P.bodies[ck]["blocks"]:
                for st in blk["s"]:
                    for o in st["rv"].get("o", []):
                        k = o.get("k", {})
                        if "float" in k:
                            floats.add(float(k["float"]))
                        if "int" in k:
                            ints.add(int(k["int"]))
    for m in w.get("must_call", []):
        if not any(c.endswith(m) for c in called):
            return False, f"{fn} no longer calls {m}"
    for m in w.get("must_not_call", []):
        hit = [c for c in called if c.endswith(m)]
        if hit:
            return False, f"{fn} now calls {hit[0]}"
    for c in w.get("float_consts", []):
        if float(c) not in floats:
            return False, f"float constant {c} no longer appears in {fn} (found {sorted(floats)[:8]})"
    for c in w.get("int_consts", []):
        if int(c) not in ints:
            return False, f"integer constant {c} no longer appears in {fn}"
    if w.get("reached_from"):
        roots = [w["reached_from"]]
        if w.get("reached_from_self"):
            # impl-block indices move when an impl is added earlier in the file: resolve the root by self type and method name
            meth = w["reached_from"].rsplit("::", 1)[-1]
            byself = [k for k, b in P.bodies.items() if b.get("impl_self") == w["reached_from_self"] and k.rsplit("::", 1)[-1] == meth and "{closure" not in k]
            if byself:
                roots = byself
        r = P.reachable(roots)
        if fn not in r:
            return False, f"{fn} is no longer reachable from {w['reached_from']}"
    return True, ""
