"""Shared check plumbing: known findings, evidence, exit codes."""
import json
import os
import sys
import time

VERIF = os.path.dirname(os.path.dirname(os.path.abspath(__file__)))


import re as _re


def norm_fn(fn):
    """closure indices are renumbered by unrelated edits in the same function: keys use `{closure}` without the index"""
    return _re.sub(r"\{closure#\d+\}", "{closure}", fn)


class CannotSee(Exception):
    """The checker could not see the code it must analyse (anchor/floor/fact failure): exit 2."""


def load_tables():
    out = {}
    d = os.path.join(VERIF, "tables")
    for fn in os.listdir(d):
        if fn.endswith(".json"):
            with open(os.path.join(d, fn)) as f:
                out[fn[:-5]] = json.load(f)
    return out


def load_known():
    p = os.path.join(VERIF, "known_findings.json")
    if not os.path.exists(p):
        return {"known": [], "fixed": []}
    with open(p) as f:
        return json.load(f)


def check_floors(pid, measured, tables):
    floors = tables.get("floors", {}).get(pid, {})
    bad = []
    for k, v in floors.items():
        if measured.get(k, 0) < v:
            bad.append(f"{k}: measured {measured.get(k, 0)} < floor {v}")
    if bad:
        raise CannotSee("instance counts fell below the hand-confirmed floors: " + "; ".join(bad))


def finish(pid, tier, t0, findings, obligations, samples, explanation, rule_text, stats, assumptions, trusted_base,
           checker_cmd, replay_key=None):
    """Write evidence, print VIOLATION / KNOWN-FINDING lines, return the exit code."""
    known = load_known()
    known_keys = {e["key"]: e for e in known.get("known", []) if e["property"] == pid}
    # dedupe findings by key
    by_key = {}
    for f in findings:
        by_key.setdefault(f["key"], f)
    viol = []
    kf = []
    for k, f in sorted(by_key.items()):
        if k in known_keys:
            kf.append((known_keys[k], f))
        else:
            viol.append(f)
    no_ev = bool(os.environ.get("FONTC_VERIF_NO_EVIDENCE"))
    vdir = os.path.join(VERIF, "evidence", "violations") if not no_ev else os.path.join(VERIF, ".cache", "mutant-violations")
    os.makedirs(vdir, exist_ok=True)
    for fn in os.listdir(vdir):
        if fn.startswith(pid + "-"):
            os.remove(os.path.join(vdir, fn))
    for e, f in kf:
        print(f"KNOWN-FINDING: property={pid} {e['key']} :: {e['what']} [{f['loc']}]")
    for i, f in enumerate(viol):
        path = os.path.join(vdir, f"{pid}-{i}.json")
        with open(path, "w") as fh:
            json.dump({"property": pid, "rule": f["rule"], "key": f["key"], "message": f["msg"], "location": f["loc"],
                       "detail": f.get("detail", {})}, fh, indent=1, default=str)
        print(f"[{f['rule']}] {f['loc']}: {f['msg']}")
        print(f"VIOLATION property={pid} replay={path}")
    n_ok = sum(1 for o in obligations if o["ok"])
    rules = {}
    for o in obligations:
        r = rules.setdefault(o["rule"], [0, 0])
        r[0] += 1
        r[1] += 1 if o["ok"] else 0
    distinct = len({o["inst"] for o in obligations})
    ev = {
        "property_id": pid,
        "tier": tier,
        "seed": int(os.environ.get("VERIF_SEED", "0") or 0),
        "level": "other",
        "coverage": {
            "explanation": explanation,
            "rule": rule_text,
            "obligations": len(obligations),
            "discharged": n_ok,
            "evaluations": len(obligations),
            "distinct_nontrivial": distinct,
            "samples": samples[:16] if samples else [o for o in obligations[:8]],
            "per_rule": {k: {"instances": v[0], "discharged": v[1]} for k, v in sorted(rules.items())},
            "analysed": stats,
            "checker_cmd": checker_cmd,
            "trusted_base": trusted_base,
            "known_findings_reported": [e["key"] for e, _ in kf],
            "stale_known_findings": sorted(set(known_keys) - {e["key"] for e, _ in kf}),
            "exhaustive": True,
        },
        "assumptions": assumptions,
        "wall_s": round(time.time() - t0, 2),
        "violations": len(viol),
    }
    if not no_ev:
        os.makedirs(os.path.join(VERIF, "evidence"), exist_ok=True)
        with open(os.path.join(VERIF, "evidence", f"{pid}.json"), "w") as fh:
            json.dump(ev, fh, indent=1, default=str)
    print(f"[{pid}] tier={tier} obligations={len(obligations)} discharged={n_ok} known-findings={len(kf)} violations={len(viol)} wall={ev['wall_s']}s")
    if replay_key is not None:
        hit = [f for f in viol if f["key"] == replay_key] + [f for e, f in kf if f["key"] == replay_key]
        print(f"replay: {replay_key} -> {'STILL PRESENT' if hit else 'no longer reported'}")
        return 1 if hit else 0
    return 1 if viol else 0
