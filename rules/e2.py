"""Engine E2 - order and nondeterminism sources (C01, C18).

N-rules: who may consult the clock, the environment, thread identity, addresses, hidden shared state.
H-rule : hash iteration order never becomes data: every iteration of a std HashMap/HashSet (and every call of a workspace
         function that returns a hash-ordered sequence) reachable from the entry points is either AUTO-SAFE (the local flow
         analysis sees only order-insensitive consumers, or a total sort of the collected sequence) or AUDITED in
         tables/e2_hash_audit.json (function + iterated collection + method, multiplicity, reason, optional witness) or a finding.
"""
import re
from collections import defaultdict, deque

from prog import CFG, def_sites, backward_slice, operand_local, operand_place
import e3

HASH_ITER_METHODS = {"iter", "iter_mut", "keys", "values", "values_mut", "into_keys", "into_values", "drain", "retain",
                     "extract_if", "difference", "intersection", "union", "symmetric_difference", "into_iter"}
HASH_PREFIX = ("std::collections::hash::map::", "std::collections::hash::set::")
HASH_TYPES = ("std::collections::HashMap<", "std::collections::HashSet<")

EXCLUDED_SCOPE = [
    ("fontc::timing::", "timing SVG only: never reaches font bytes"),
    ("fontc::workload::", "launch order of ready jobs is schedule by design; C02 (E1) proves outputs do not depend on it"),
    ("fontc[bin]::", "CLI logging/argument handling"),
]

# iterator adapters keep the order taint
ADAPTERS = {"map", "filter", "filter_map", "flat_map", "flatten", "cloned", "copied", "chain", "inspect", "peekable", "by_ref",
            "rev", "enumerate", "zip", "into_iter", "iter", "iter_mut", "skip_while_none", "fuse", "map_while_none", "sorted_placeholder"}
SAFE_CONSUMERS = {"count", "all", "any", "len", "is_empty", "contains", "contains_key", "is_subset", "is_superset", "is_disjoint",
                  "eq", "ne", "max", "min", "size_hint", "drop"}
ORDER_SENSITIVE = {"find", "find_map", "position", "rposition", "last", "nth", "fold", "try_fold", "reduce", "scan", "take", "skip",
                   "step_by", "take_while", "skip_while", "map_while", "min_by", "min_by_key", "max_by", "max_by_key", "unzip",
                   "partition", "join", "concat", "try_for_each", "for_each", "next", "next_back", "collect_vec", "first", "windows",
                   "chunks", "dedup", "try_collect"}
COLLECTORS = {"collect", "from_iter", "extend", "extend_from_slice", "append", "sum", "product", "to_vec", "into_boxed_slice"}
SORTS_TOTAL = {"sort", "sort_unstable"}
SORTS_BY = {"sort_by", "sort_by_key", "sort_unstable_by", "sort_unstable_by_key", "sort_by_cached_key"}

UNORDERED_TARGETS = ("fontdrasil::coords::Location<", "std::collections::HashMap<", "std::collections::HashSet<", "std::collections::BTreeMap<", "std::collections::BTreeSet<",
                     "write_fonts::read_fonts::collections::IntSet<", "read_fonts::collections::int_set::IntSet<", "font_types::", )
ORDERED_SEQ_TARGETS = ("std::vec::Vec<", "std::collections::VecDeque<", "std::string::String", "smallvec::SmallVec<", "indexmap::IndexMap<",
                       "indexmap::IndexSet<", "std::boxed::Box<[", "smol_str::SmolStr")
INT_TYPES = {"usize", "u8", "u16", "u32", "u64", "u128", "isize", "i8", "i16", "i32", "i64", "i128", "bool"}


def strip_wrappers(ty):
    """Option<X> / Result<X, E> -> X"""
    t = ty
    for pre in ("std::option::Option<", "core::option::Option<", "std::result::Result<", "core::result::Result<"):
        if t.startswith(pre):
            from e1 import split_generics
            t = split_generics(t)[0]
    return t


def is_unordered_target(ty):
    t = strip_wrappers(ty)
    return t.startswith(UNORDERED_TARGETS[:6]) or "IntSet<" in t or "BTreeMap<" in t.split("<")[0] or "BTreeSet<" in t.split("<")[0]


def is_seq_target(ty):
    t = strip_wrappers(ty)
    return t.startswith(ORDERED_SEQ_TARGETS)


def in_scope(fn):
    for pre, _ in EXCLUDED_SCOPE:
        if fn.startswith(pre):
            return False
    return True


def method_name(callee):
    return callee.rsplit("::", 1)[1] if callee else ""


class Flow:
    """forward flow of one hash-ordered value inside one body"""

    def __init__(self, P, fn, summaries):
        self.P = P
        self.fn = fn
        self.body = P.bodies[fn]
        self.summaries = summaries
        self.cfg = None
        self.issues = []      # (kind, detail, line)
        self.notes = []       # safe consumers seen
        self.returns_seq = False
        self.seen = set()
        self._uses = None
        self.depth_budget = 2
        self.key_prov = None
        self.source_is_map = False

    def uses(self):
        if self._uses is None:
            u = defaultdict(list)
            for bi, blk in enumerate(self.body["blocks"]):
                if blk["cl"]:
                    continue
                for si, st in enumerate(blk["s"]):
                    rv = st["rv"]
                    ls = [operand_local(o) for o in rv.get("o", [])]
                    if "p" in rv:
                        ls.append(rv["p"][0])
                    for l in ls:
                        if l is not None:
                            u[l].append(("stmt", bi, st))
                t = blk["t"]
                if t["t"] == "call":
                    for ai, a in enumerate(t["a"]):
                        l = operand_local(a)
                        if l is not None:
                            u[l].append(("call", bi, t, ai))
                    fl = operand_local(t["f"])
                    if fl is not None:
                        u[fl].append(("callee", bi, t))
                elif t["t"] == "sw":
                    l = operand_local(t["o"])
                    if l is not None:
                        u[l].append(("sw", bi, t))
                elif t["t"] == "drop":
                    u[t["p"][0]].append(("drop", bi, t))
            self._uses = u
        return self._uses

    def follow(self, local, kind, depth=0):
        """kind: 'iter' (hash-ordered iterator) | 'seq' (sequence whose order is hash order)"""
        key = (local, kind)
        if key in self.seen or depth > 40:
            return
        self.seen.add(key)
        if local == 0:
            ret = strip_wrappers(self.body.get("ret") or self.body["locals"][0])
            if ret not in ("()", "bool") and ret not in INT_TYPES:
                self.returns_seq = True
            return
        for u in self.uses().get(local, []):
            if u[0] == "drop":
                continue
            if u[0] == "stmt":
                st = u[2]
                rv = st["rv"]
                r = rv.get("r")
                d = st["d"]
                if r in ("use", "ref", "cast") or (r == "agg" and rv.get("ak") in ("tuple", "adt", "array", "closure")):
                    if len(d) == 1:
                        if r == "agg" and rv.get("ak") == "closure":
                            # captured by a closure: the closure body may consume it
                            self.issues.append(("captured-by-closure", rv.get("def"), st["l"]))
                        elif r == "agg" and rv.get("ak") == "adt" and rv["adt"] not in ("core::option::Option", "core::result::Result"):
                            self.issues.append(("stored-in-struct", rv["adt"], st["l"]))
                        else:
                            self.follow(d[0], kind, depth + 1)
                    else:
                        if d[0] == 0:
                            ret = strip_wrappers(self.body.get("ret") or self.body["locals"][0])
                            if ret not in ("()", "bool") and ret not in INT_TYPES:
                                self.returns_seq = True
                        else:
                            self.issues.append(("stored-in-field", str(d[1:]), st["l"]))
                elif r == "discr":
                    continue
                else:
                    self.issues.append((f"used-in-{r}", "", st["l"]))
            elif u[0] == "sw":
                continue
            elif u[0] == "callee":
                self.issues.append(("called-as-fn", "", u[2]["l"]))
            elif u[0] == "call":
                self.handle_call(local, kind, u[2], u[3], u[1], depth)

    def handle_call(self, local, kind, t, ai, bi, depth):
        k = t["f"].get("k")
        callee = (k.get("res") or k.get("fn")) if k else None
        written = k.get("fn") if k else None
        name = method_name(written or "")
        dty = t.get("dty", "")
        dest = t["d"][0] if len(t["d"]) == 1 else None
        line = t["l"]
        if callee is None:
            self.issues.append(("indirect-call", "", line))
            return
        # --- sorting a sequence clears its taint from here on
        if kind == "seq" and name in SORTS_TOTAL:
            if getattr(self, "elem_taint", False):
                self.issues.append(("sorted-outer-only", f"{name}: the elements were themselves built in hash order; ordering the outer sequence does not order them", line))
                return
            self.notes.append(("sorted", name, line))
            self.sorted_locals = getattr(self, "sorted_locals", set()) | {local}
            return
        if kind == "seq" and name in SORTS_BY:
            self.issues.append(("sort-by-comparator", name, line))
            return
        # --- plain plumbing
        if name in ("deref", "deref_mut", "as_ref", "as_mut", "borrow", "borrow_mut", "clone", "as_slice", "as_mut_slice", "into", "from",
                    "branch", "from_residual", "unwrap", "expect", "unwrap_or_default", "unwrap_or", "ok", "as_deref", "iter", "iter_mut",
                    "into_iter", "to_owned", "must_use", "new", "into_values", "into_keys", "values", "keys", "drain") \
                and not (callee in self.P.bodies and name in ("new", "from", "into") and self.P.bodies[callee].get("dk") in ("Fn", "AssocFn")):
            # (a workspace constructor is analysed like any other workspace callee, below)
            # the value keeps its order whether it is the receiver or another argument (`Record::new(cond, tainted)`,
            # `opt.unwrap_or(tainted)`): the result is followed either way.  (Dropping it for non-receiver arguments hid the
            # FeatureTableSubstitution records built from a HashMap inside FeatureVariationRecord::new - defect D21.)
            if dest is not None:
                nk = kind
                if ai == 0 and name in ("iter", "iter_mut", "into_iter", "into_values", "into_keys", "values", "keys", "drain") and kind == "seq":
                    nk = "iter"
                self.follow(dest, nk, depth + 1)
            return
        if kind == "iter":
            if name == "next" and ai == 0:
                self.handle_loop(local, t, bi, depth)
                return
            if name in ADAPTERS or (dty.startswith(("std::iter::", "core::iter::")) and name not in COLLECTORS):
                if name in ("map", "filter_map", "flat_map") and ai == 0 and len(t["a"]) == 2:
                    prov = self.closure_key_provenance(operand_local(t["a"][1]))
                    if prov is not None:
                        self.key_prov = prov
                if name in ("flat_map", "flatten") and ai == 0:
                    # one source entry now yields several items: items (and map keys built from them) of DIFFERENT entries can coincide
                    self.flattened = True
                if dest is not None:
                    self.follow(dest, "iter", depth + 1)
                return
            if name in SAFE_CONSUMERS:
                self.notes.append(("safe-consumer", name, line))
                return
            if name in ("sum", "product"):
                if strip_wrappers(dty) in INT_TYPES:
                    self.notes.append(("safe-consumer", name + ":int", line))
                else:
                    self.issues.append(("float-reduction", f"{name} -> {dty}", line))
                return
            if name in ("collect", "from_iter", "extend", "to_vec"):
                target = dty if name != "extend" else self.arg_type(t, 0)
                if name == "extend" and ai != 0:
                    target = self.arg_type(t, 0)
                    if is_unordered_target(target):
                        tt = strip_wrappers(target)
                        if ("Map<" in tt.split("<")[0] + "<") and getattr(self, "key_prov", None) == "value-only" and self.source_is_map:
                            self.issues.append(("extend-map-rekeyed-by-value", "keys inserted into the map are computed from the values only: equal keys collide and the survivor depends on hash order", line))
                        elif ("Map<" in tt.split("<")[0] + "<") and getattr(self, "flattened", False):
                            self.issues.append(("extend-map-after-flatten", "each hash-ordered entry contributes several keys (flat_map/flatten): keys from different entries can coincide, and the value that survives in the map is the one of the entry visited last", line))
                        else:
                            self.notes.append(("into-unordered", target[:50], line))
                    elif is_seq_target(target):
                        tl = operand_local(t["a"][0])
                        self.follow_container(tl, line, depth)
                    else:
                        self.issues.append(("extend-into", target[:60], line))
                    return
                if is_unordered_target(target):
                    tt = strip_wrappers(target)
                    if ("Map<" in tt.split("<")[0] + "<") and getattr(self, "key_prov", None) == "value-only" and self.source_is_map:
                        self.issues.append(("collect-into-map-rekeyed-by-value", "keys of the new map are computed from the values only: equal keys collide and the survivor depends on hash order", line))
                    elif ("Map<" in tt.split("<")[0] + "<") and getattr(self, "flattened", False):
                        self.issues.append(("collect-into-map-after-flatten", "each hash-ordered entry contributes several keys (flat_map/flatten): keys from different entries can coincide, and the value that survives in the map is the one of the entry visited last", line))
                    else:
                        self.notes.append(("into-unordered", target[:50], line))
                elif is_seq_target(target):
                    if dest is not None:
                        self.follow(dest, "seq", depth + 1)
                else:
                    self.issues.append(("collect-into", target[:60], line))
                return
            if name == "for_each" and ai == 0 and len(t["a"]) == 2:
                cl = operand_local(t["a"][1])
                caps = self.closure_captures(cl)
                if caps == 0 or (caps is not None and self.closure_captures_shared_only(cl)):
                    self.notes.append(("per-element-mutation", "for_each with capture-less closure", line))
                    return
            if name in ORDER_SENSITIVE:
                self.issues.append(("order-sensitive-consumer", name, line))
                return
        if kind == "seq":
            if name in SAFE_CONSUMERS:
                self.notes.append(("safe-consumer", name, line))
                return
            if name in ("extend", "append") and ai != 0:
                target = self.arg_type(t, 0)
                if is_unordered_target(target):
                    self.notes.append(("into-unordered", target[:50], line))
                else:
                    self.follow_container(operand_local(t["a"][0]), line, depth)
                return
            if name in ("push", "push_back", "insert", "extend", "append", "reserve", "retain", "truncate", "clear") and ai == 0:
                return  # mutation of the tainted sequence itself
        # --- workspace callee: parameter taint continues there
        if callee in self.P.bodies:
            if self.depth_budget > 0 and self.P.bodies[callee].get("dk") in ("Fn", "AssocFn"):
                sub = Flow(self.P, callee, self.summaries)
                sub.elem_taint = getattr(self, "elem_taint", False)
                sub.depth_budget = self.depth_budget - 1
                sub.follow(ai + 1, kind)
                for owner, l2 in getattr(sub, "pending_seq", []):
                    if owner not in getattr(sub, "sorted_locals", set()):
                        sub.issues.append(("sequence-filled-in-hash-order", f"in {callee}", l2))
                for i in sub.issues:
                    self.issues.append((i[0], f"via {callee.split('::')[-1]}: {i[1]}", line))
                self.notes += sub.notes
                if sub.returns_seq and dest is not None:
                    self.follow(dest, "seq" if is_seq_target(dty) else "iter", depth + 1)
                return
            self.issues.append(("passed-to-workspace-fn", f"{callee} (arg {ai})", line))
            return
        self.issues.append(("passed-to", f"{callee} ({kind}, arg {ai})", line))

    def closure_captures(self, local):
        """number of captured values of the closure aggregate assigned to `local` (None if not a closure)"""
        if local is None:
            return None
        for d in def_sites(self.body).get(local, []):
            if d[0] == "stmt" and d[3]["rv"].get("ak") == "closure":
                return len(d[3]["rv"].get("o", []))
        return None

    def closure_key_provenance(self, local):
        """for a closure |(k, v)| (key_expr, value_expr): 'value-only' if key_expr derives from the value side only,
        'key' if it touches the original key, None if the closure does not return a pair"""
        if local is None:
            return None
        cdef = None
        for d in def_sites(self.body).get(local, []):
            if d[0] == "stmt" and d[3]["rv"].get("ak") == "closure":
                cdef = d[3]["rv"]["def"]
        cb = self.P.bodies.get(cdef)
        if not cb or cb["argc"] < 2:
            return None
        pty = cb["locals"][2]
        if not pty.startswith("("):
            return None
        defs = def_sites(cb)
        key_locals = []
        for blk in cb["blocks"]:
            for st in blk["s"]:
                if st["d"] == [0] and st["rv"].get("ak") == "tuple" and len(st["rv"]["o"]) == 2:
                    l = operand_local(st["rv"]["o"][0])
                    if l is not None:
                        key_locals.append(l)
        if not key_locals:
            return None
        sl, recs = backward_slice(cb, key_locals, defs)
        touched = set()
        for d in recs:
            if d[0] == "stmt":
                rv = d[3]["rv"]
                places = [operand_place(o) for o in rv.get("o", [])] + ([rv["p"]] if "p" in rv else [])
            else:
                places = [operand_place(o) for o in d[3]["a"]]
            for p in places:
                if p and p[0] == 2 and len(p) > 1 and p[1].startswith("f:"):
                    touched.add(p[1].split(":")[1])
        if touched == {"1"}:
            return "value-only"
        if "0" in touched:
            return "key"
        return None

    def closure_captures_shared_only(self, local):
        for d in def_sites(self.body).get(local, []):
            if d[0] == "stmt" and d[3]["rv"].get("ak") == "closure":
                for o in d[3]["rv"].get("o", []):
                    l = operand_local(o)
                    if l is not None and self.body["locals"][l].startswith("&mut"):
                        return False
                return True
        return False

    def arg_type(self, t, i):
        l = operand_local(t["a"][i]) if i < len(t["a"]) else None
        if l is None:
            return ""
        ty = self.body["locals"][l]
        while ty.startswith("&"):
            ty = ty[1:].strip()
            if ty.startswith("mut "):
                ty = ty[4:]
        return ty

    def follow_container(self, local, line, depth):
        """a sequence container received hash-ordered elements: the underlying owner must be sorted later"""
        if local is None:
            self.issues.append(("push-into-unknown", "", line))
            return
        owner = self.owner_of(local)
        self.follow(owner, "seq", depth + 1)
        if not any(n[0] == "sorted" for n in self.notes) and owner not in getattr(self, "sorted_locals", set()):
            self.pending_seq = getattr(self, "pending_seq", []) + [(owner, line)]

    def owner_of(self, local):
        """walk `_a = &mut _b` / deref_mut chains back to the owning local"""
        defs = def_sites(self.body)
        cur = local
        for _ in range(8):
            ds = defs.get(cur, [])
            nxt = None
            for d in ds:
                if d[0] == "stmt" and d[3]["rv"].get("r") == "ref" and all(e == "*" for e in d[3]["rv"]["p"][1:]):
                    nxt = d[3]["rv"]["p"][0]
                elif d[0] == "stmt" and d[3]["rv"].get("r") == "use":
                    p = operand_place(d[3]["rv"]["o"][0])
                    if p and all(e == "*" for e in p[1:]):
                        nxt = p[0]
                elif d[0] == "call":
                    nm = method_name(((d[3]["f"].get("k") or {}).get("fn")) or "")
                    if nm in ("deref_mut", "deref", "as_mut", "borrow_mut"):
                        nxt = operand_local(d[3]["a"][0])
            if nxt is None:
                break
            cur = nxt
        return cur

    def handle_loop(self, iter_local, next_term, bi, depth):
        """`for x in hash_iter { body }`: classify the body's effects on state that outlives the loop"""
        body = self.body
        if self.cfg is None:
            self.cfg = CFG(body)
        cfg = self.cfg
        # loop blocks = blocks on a cycle through the `next` call block
        if bi not in self._succ_reach(bi):
            # a lone next(): takes "the first" element of a hash-ordered iterator
            self.issues.append(("order-sensitive-consumer", "next (outside a loop)", next_term["l"]))
            return
        fwd = cfg.reachable_from(bi)
        loop = {b for b in fwd if bi in cfg.reachable_from(b)}
        elem = next_term["d"][0]
        # locals derived from the element
        derived = self.derive(elem, loop)
        line0 = next_term["l"]
        for b in sorted(loop):
            blk = body["blocks"][b]
            if blk["cl"]:
                continue
            for st in blk["s"]:
                d = st["d"]
                rv = st["rv"]
                srcs = [operand_local(o) for o in rv.get("o", [])] + ([rv["p"][0]] if "p" in rv else [])
                if any(s in derived for s in srcs if s is not None):
                    if d[0] == 0:
                        self.issues.append(("loop-returns-element", "", st["l"]))
                    elif d[0] not in derived and not self.defined_in(d[0], loop):
                        if len(d) > 1 and "*" in d[1:]:
                            # write through a reference: to the element itself (values_mut) is fine
                            if d[0] in derived:
                                continue
                        ty = body["locals"][d[0]]
                        if rv.get("r") == "bin" and ty in INT_TYPES | {"(usize, bool)", "(u32, bool)", "(i32, bool)", "(u16, bool)", "(i64, bool)", "(u64, bool)"}:
                            continue
                        self.issues.append(("loop-assigns-outer", f"_{d[0]}: {ty[:50]}", st["l"]))
            t = blk["t"]
            if t["t"] == "call":
                k = t["f"].get("k")
                callee = (k.get("res") or k.get("fn")) if k else None
                name = method_name((k.get("fn") if k else "") or "")
                args = [operand_local(a) for a in t["a"]]
                if not any(a in derived for a in args if a is not None):
                    continue
                recv = args[0] if args else None
                if recv is not None and recv not in derived:
                    rty = self.arg_type(t, 0)
                    owner = self.owner_of(recv)
                    outer = not self.defined_in(owner, loop)
                    if outer and name in ("push", "push_back", "push_str", "push_front", "extend", "append", "extend_from_slice", "write_str", "write_fmt"):
                        if is_unordered_target(rty):
                            continue
                        self.follow(owner, "seq", depth + 1)
                        self.pending_seq = getattr(self, "pending_seq", []) + [(owner, t["l"])]
                        continue
                    if outer and name in ("insert", "entry", "remove", "get_mut", "or_insert", "or_default", "or_insert_with", "add", "get", "contains", "contains_key", "retain"):
                        if is_unordered_target(rty) or "Entry<" in rty:
                            # map.insert(k', v') overwrites (last wins); entry(k').or_default() followed by an insert into the
                            # inner collection is a commutative grouping and is not flagged
                            if name == "insert" and len(args) == 3 and self.source_is_map and ("Map<" in strip_wrappers(rty).split("<")[0] + "<"):
                                ks, vs = self.elem_sides(elem, loop, derived)
                                ka = args[1]
                                if ka in vs and ka not in ks:
                                    self.issues.append(("loop-insert-rekeyed-by-value", "the key inserted into the outer map is computed from the iterated values only: equal keys collide and first/last wins in hash order", t["l"]))
                            continue
                        if is_seq_target(rty):
                            self.issues.append(("loop-inserts-into-seq", rty[:50], t["l"]))
                            continue
                if callee in self.P.bodies and recv is not None and recv not in derived and not self.defined_in(self.owner_of(recv), loop):
                    rty = self.arg_type(t, 0)
                    if "&mut" in body["locals"][recv] or body["locals"][recv].startswith("&mut"):
                        self.issues.append(("loop-calls-workspace-fn-on-outer-state", f"{callee}", t["l"]))
            if t["t"] == "ret":
                pass
        # early exits carrying an element-derived value other than through `?`
        self.notes.append(("loop", f"{len(loop)} blocks", line0))

    def elem_sides(self, elem, loop, derived):
        """split element-derived locals into those computed from the key side (.0) and from the value side (.1) of a map item"""
        ks, vs = set(), set()
        changed = True
        while changed:
            changed = False
            for bi in loop:
                blk = self.body["blocks"][bi]
                for st in blk["s"]:
                    if len(st["d"]) != 1:
                        continue
                    d = st["d"][0]
                    rv = st["rv"]
                    places = [operand_place(o) for o in rv.get("o", [])] + ([rv["p"]] if "p" in rv else [])
                    for p in places:
                        if not p or p[0] not in derived:
                            continue
                        tf = [e for e in p[1:] if e in ("f:0:", "f:1:")]
                        add_k = add_v = False
                        if p[0] == elem or (p[0] not in ks and p[0] not in vs):
                            if tf:
                                add_k, add_v = tf[0] == "f:0:", tf[0] == "f:1:"
                        else:
                            add_k, add_v = p[0] in ks, p[0] in vs
                        if add_k and d not in ks:
                            ks.add(d)
                            changed = True
                        if add_v and d not in vs:
                            vs.add(d)
                            changed = True
                t = blk["t"]
                if t["t"] == "call" and len(t["d"]) == 1:
                    d = t["d"][0]
                    for a in t["a"]:
                        l = operand_local(a)
                        if l in ks and d not in ks:
                            ks.add(d)
                            changed = True
                        if l in vs and d not in vs:
                            vs.add(d)
                            changed = True
        return ks, vs

    def _succ_reach(self, bi):
        cfg = self.cfg
        out = set()
        for s in cfg.succ[bi]:
            out |= cfg.reachable_from(s)
        return out

    def defined_in(self, local, loop):
        for bi in loop:
            blk = self.body["blocks"][bi]
            for st in blk["s"]:
                if st["d"] == [local]:
                    return True
            t = blk["t"]
            if t["t"] == "call" and t["d"] == [local]:
                return True
        return False

    def derive(self, elem, loop):
        derived = {elem}
        changed = True
        while changed:
            changed = False
            for bi in loop:
                blk = self.body["blocks"][bi]
                for st in blk["s"]:
                    rv = st["rv"]
                    srcs = [operand_local(o) for o in rv.get("o", [])] + ([rv["p"][0]] if "p" in rv else [])
                    if any(s in derived for s in srcs if s is not None) and len(st["d"]) == 1 and st["d"][0] not in derived:
                        derived.add(st["d"][0])
                        changed = True
                t = blk["t"]
                if t["t"] == "call" and len(t["d"]) == 1 and t["d"][0] not in derived:
                    if any(operand_local(a) in derived for a in t["a"] if operand_local(a) is not None):
                        derived.add(t["d"][0])
                        changed = True
        return derived


def hash_sites(P, reach):
    """every iteration of a std HashMap/HashSet in scope"""
    out = []
    for fn in sorted(reach):
        b = P.bodies.get(fn)
        if not b or not in_scope(fn):
            continue
        for s in P.iter_sites(fn):
            if s["kind"] != "call" or not s["info"] or b["blocks"][s["bi"]]["cl"]:
                continue
            name = s["info"]["fn"]
            res = s["info"].get("res") or name
            m = name.rsplit("::", 1)[1]
            hit = None
            if res.startswith(HASH_PREFIX) and m in HASH_ITER_METHODS:
                hit = res.split("::")[3]
            elif name == "core::iter::traits::collect::IntoIterator::into_iter":
                ga0 = s["info"]["ga"][0]
                t = ga0.lstrip("&").replace("mut ", "").strip()
                if t.startswith(HASH_TYPES):
                    hit = "map" if "HashMap<" in t[:30] else "set"
            if hit:
                coll = s["term"]["dty"]
                out.append({"fn": fn, "method": m, "line": s["line"], "bi": s["bi"], "term": s["term"], "coll": coll})
    return out


def coll_key(dty):
    """stable description of what is iterated: the iterator type without lifetimes and hasher"""
    t = re.sub(r"'[_a-z0-9]+,? ?", "", dty)
    t = t.replace(", std::hash::RandomState", "")
    return t[:160]


def analyse_site(P, site, summaries):
    fl = Flow(P, site["fn"], summaries)
    fl.elem_taint = bool(site.get("elem"))
    t = site["term"]
    m = site["method"]
    if fl.elem_taint:
        # a flow of its own, so that an audit entry written for the outer order does not silently cover the inner one
        fl.issues.append(("nested-hash-order", "the elements of this sequence were themselves built in hash order (" + site["coll"].split(":", 1)[-1].split("::", 2)[-1][-70:] + "); ordering the sequence does not order them", site["line"]))
    fl.source_is_map = "hash_map::" in site["coll"] and m in ("iter", "iter_mut", "into_iter", "drain")
    if m == "retain":
        # retain(|k, v| ..) visits in hash order: only the closure's side effects matter
        fl.issues.append(("retain-closure", "side effects of the predicate run in hash order", site["line"]))
    elif len(t["d"]) == 1:
        kind = "iter"
        if site.get("derived") and is_seq_target(t.get("dty", "")):
            kind = "seq"
        fl.follow(t["d"][0], kind)
    pend = getattr(fl, "pending_seq", [])
    sorted_locals = getattr(fl, "sorted_locals", set())
    for owner, line in pend:
        if owner not in sorted_locals:
            fl.issues.append(("sequence-filled-in-hash-order", f"_{owner}: {fl.body['locals'][owner][:50]} never sorted in this function", line))
    if fl.returns_seq and site["fn"] not in site.get("returning", ()):
        fl.issues.append(("returned", "hash-ordered value returned to callers", site["line"]))
    return fl


def derived_sites(P, reach, returning):
    """call sites of functions (or adapter calls taking closures) that return a hash-ordered value"""
    out = []
    for fn in sorted(reach):
        b = P.bodies.get(fn)
        if not b or not in_scope(fn):
            continue
        closure_locals = {}
        for blk in b["blocks"]:
            for st in blk["s"]:
                rv = st["rv"]
                if rv.get("ak") == "closure" and rv.get("def") in returning and len(st["d"]) == 1:
                    closure_locals[st["d"][0]] = rv["def"]
        for s in P.iter_sites(fn):
            if s["kind"] != "call" or b["blocks"][s["bi"]]["cl"]:
                continue
            t = s["term"]
            hit = None
            elem = False
            # a call that could not be devirtualised (`<T as Builder>::build` on a generic T) is expanded to every impl of the
            # trait method: it counts as returning hash order only if every candidate does (otherwise one unrelated impl
            # - here PosSubBuilder's own build - taints every generic builder call and feeds back into itself)
            cands = [tg for tg in s["targets"] if tg in P.bodies]
            if s.get("virt") and not all(tg in returning for tg in cands):
                cands = []
            for tg in cands:
                if tg in returning and P.bodies[tg].get("dk") in ("Fn", "AssocFn"):
                    hit = tg
                    elem = elem or bool(returning[tg]) if isinstance(returning, dict) else elem
            if hit is None:
                for a in t["a"]:
                    l = operand_local(a)
                    if l in closure_locals:
                        hit = closure_locals[l]
                        if isinstance(returning, dict) and returning.get(hit):
                            elem = True
                        # `iter.map(|x| <hash-ordered sequence>)`: every ELEMENT of the result is hash-ordered; sorting the
                        # outer sequence later does not normalise them (flat_map yields the inner items one by one instead)
                        k = t["f"].get("k") or {}
                        if method_name(k.get("fn") or "") in ("map", "filter_map", "and_then", "then", "map_or", "map_or_else"):
                            elem = True
            if hit:
                out.append({"fn": fn, "method": "call:" + hit.split("::", 1)[1][-60:], "line": s["line"], "bi": s["bi"], "term": t,
                            "coll": "returns-hash-ordered:" + hit, "derived": True, "elem": elem})
    return out


def flow_sig(i):
    return f"{i[0]}|{re.sub(r'[0-9]+', 'N', str(i[1]))[:90]}"


def run_h(P, tables, scope_filter=None, rule="H"):
    from common import norm_fn
    findings, obl, samples = [], [], []
    reach = e3.entry_reach(P)
    sites = hash_sites(P, reach)
    # fixed point: functions whose only issue is "returned" propagate the taint to their callers
    returning = {}     # fn -> True if (some of) what it returns has hash-ordered ELEMENTS (nested order)
    for _ in range(8):
        new = {}
        for s0 in sites + derived_sites(P, reach, returning):
            fl = analyse_site(P, s0, None)
            if fl.returns_seq:
                new[s0["fn"]] = new.get(s0["fn"], False) or bool(s0.get("elem"))
        if all(k in returning and (returning[k] or not v) for k, v in new.items()):
            break
        for k, v in new.items():
            returning[k] = returning.get(k, False) or v
    sites = sites + derived_sites(P, reach, returning)
    for s0 in sites:
        s0["returning"] = returning
    audit = {}
    for e in tables.get("e2_hash_audit", {}).get("sites", []):
        audit[(e["fn"], e["coll"], e["method"])] = e
    grouped = defaultdict(list)
    for s in sites:
        if scope_filter and not scope_filter(s["fn"]):
            continue
        grouped[(norm_fn(s["fn"]), norm_fn(coll_key(s["coll"])), norm_fn(s["method"]))].append(s)
    n_auto = n_audit = 0
    used = set()
    todo = []
    for key, ss in sorted(grouped.items()):
        issues = []
        for s in ss:
            fl = analyse_site(P, s, None)
            issues += fl.issues
        if not issues:
            n_auto += len(ss)
            obl.append({"rule": rule, "inst": f"{key[0]} {key[2]}() over {key[1][:70]} x{len(ss)}: AUTO-SAFE", "ok": True})
            if len(samples) < 4:
                samples.append({"rule": rule, "site": P.site_loc(ss[0]["fn"], ss[0]["line"]), "method": key[2], "verdict": "auto-safe"})
            continue
        e = audit.get(key)
        new_flows = []
        if e and "flows" in e:
            known = set(e["flows"])
            new_flows = sorted({flow_sig(i) for i in issues} - known)
        if e and len(ss) <= e.get("count", 1) and not new_flows:
            ok, why = check_witness(P, e)
            used.add(key)
            n_audit += len(ss)
            obl.append({"rule": rule, "inst": f"{key[0]} {key[2]}() over {key[1][:70]} x{len(ss)}: audited ({e['reason'][:70]})", "ok": ok})
            if len(samples) < 8:
                samples.append({"rule": rule, "site": P.site_loc(ss[0]["fn"], ss[0]["line"]), "method": key[2], "verdict": "audited: " + e["reason"][:120]})
            if not ok:
                findings.append({"rule": rule + "-witness", "key": f"{rule}w|{key[0]}|{key[1]}|{key[2]}", "msg": f"audited hash-iteration site in {key[0]} lost its witness: {why}",
                                 "loc": P.site_loc(ss[0]["fn"], ss[0]["line"]), "detail": {}})
            continue
        first = issues[0]
        if new_flows:
            first = next(i for i in issues if flow_sig(i) in new_flows)
        obl.append({"rule": rule, "inst": f"{key[0]} {key[2]}() over {key[1][:70]} x{len(ss)}", "ok": False})
        todo.append((key, ss, issues))
        findings.append({"rule": rule, "key": f"{rule}|{key[0]}|{key[1]}|{key[2]}",
                         "msg": f"{key[0]} iterates a hash-ordered collection ({key[2]}() -> {key[1][:80]}, {len(ss)} site(s)) and the order can become data: {first[0]} {first[1]} (line {first[2]})"
                                + (f" (+{len(issues) - 1} more flows)" if len(issues) > 1 else "")
                                + ((f"; the site is audited but this flow is new: {new_flows[:3]}" if new_flows else "; audited count exceeded") if e else ""),
                         "loc": P.site_loc(ss[0]["fn"], ss[0]["line"]), "detail": {"flows": [list(i) for i in issues[:8]]}})
    stale = sorted("|".join(k) for k in set(audit) - used if not scope_filter or scope_filter(k[0]))
    stats = {"hash_iteration_sites": sum(len(v) for v in grouped.values()), "site_groups": len(grouped), "auto_safe_sites": n_auto,
             "audited_sites": n_audit, "stale_audit_entries": stale}
    return findings, obl, samples, stats, todo


def check_witness(P, e):
    w = e.get("witness")
    if not w:
        return True, ""
    fn = w.get("fn", e["fn"])
    if fn not in P.bodies:
        return False, f"{fn} not found"
    fns = [fn] + [k for k in P.bodies if k.startswith(fn + "::{closure")]
    if w["kind"] == "W-sort":
        # function (or one of its closures) still contains a total sort (sort / sort_unstable)
        for s in [x for f in fns for x in P.iter_sites(f)]:
            if s["kind"] == "call" and s["info"]:
                nm = s["info"]["fn"].rsplit("::", 1)[1]
                if nm in SORTS_TOTAL and (not w.get("elem") or any(w["elem"] in g for g in s["info"]["ga"])):
                    return True, ""
        return False, f"no total sort on a sequence of {w.get('elem', '?')} left in {fn}"
    if w["kind"] == "W-into":
        for s in [x for f in fns for x in P.iter_sites(f)]:
            if s["kind"] == "call" and s["info"] and s["info"]["fn"].rsplit("::", 1)[1] in ("collect", "from_iter", "extend", "insert"):
                if w["target"] in s["term"].get("dty", "") or any(w["target"] in g for g in s["info"]["ga"]):
                    return True, ""
        return False, f"no collection into {w['target']} left in {fn}"
    if w["kind"] == "W-call":
        for s in [x for f in fns for x in P.iter_sites(f)]:
            if s["kind"] == "call" and any(t == w["callee"] or t.endswith(w["callee"]) for t in s["targets"]):
                return True, ""
        return False, f"{fn} no longer calls {w['callee']}"
    return False, f"unknown witness kind {w['kind']}"


# ====================================================================== N-rules
NONDET_FNS = {
    "clock": ("chrono::offset::utc::{impl#", "std::time::{impl#", "std::time::SystemTime::now", "std::time::Instant::now"),
}


def nondet_kind(target):
    t = target
    if t.endswith("::now") and ("chrono::" in t or "std::time" in t or "time::" in t):
        return "clock"
    if t in ("std::env::var", "std::env::vars", "std::env::var_os", "std::env::vars_os"):
        return "env"
    if re.search(r"^std::thread::(\w+::)*current$", t) or t == "std::process::id" or re.search(r"^std::thread::\w+::\{impl#\d+\}::id$", t):
        return "thread/process identity"
    if "RandomState" in t and t.endswith("::new"):
        return "random hasher state"
    if t.startswith("rand::") or t.startswith("getrandom::") or t.startswith("fastrand::"):
        return "random numbers"
    if t.endswith("::as_ptr") and ("sync::{impl" in t or "rc::{impl" in t):
        return "address"
    return None


def rule_n(P, tables):
    findings, obl, samples = [], [], []
    allow = {e["fn"]: e for e in tables.get("e2_tables", {}).get("nondet_allowed", [])}
    reach = e3.entry_reach(P)
    n = 0
    used = set()
    for fn in sorted(reach):
        b = P.bodies.get(fn)
        if not b:
            continue
        kinds = set()
        line = None
        for s in P.iter_sites(fn):
            if s["kind"] not in ("call", "fnref"):
                continue
            for tg in s["targets"]:
                k = nondet_kind(tg)
                if k:
                    kinds.add(k)
                    line = line or s["line"]
        # pointer -> integer casts expose addresses
        for blk in b["blocks"]:
            if blk["cl"]:
                continue
            for st in blk["s"]:
                rv = st["rv"]
                if rv.get("r") == "cast" and "PointerExposeProvenance" in rv.get("ck", "") and not st.get("x"):
                    kinds.add("address")
                    line = line or st["l"]
        if not kinds:
            continue
        n += 1
        root = b.get("root") or fn
        e = allow.get(fn) or allow.get(root) or next((v for k, v in allow.items() if k.endswith("*") and fn.startswith(k[:-1])), None)
        ok = e is not None and kinds <= set(e["kinds"])
        if e is not None:
            used.add(e["fn"])
        obl.append({"rule": "N1", "inst": f"{fn} consults {sorted(kinds)}" + (f": allowed ({e['reason'][:60]})" if ok else ""), "ok": ok})
        if ok and len(samples) < 4:
            samples.append({"rule": "N1", "fn": fn, "kinds": sorted(kinds), "allowed": e["reason"]})
        if not ok:
            findings.append({"rule": "N1", "key": f"N1|{fn}|{'+'.join(sorted(kinds))}", "msg": f"{fn} consults {sorted(kinds)} on the compile path; only the audited functions may (clock/env in head::current_timestamp, timing, logging): a value that differs per process can reach the font bytes",
                             "loc": P.site_loc(fn, line), "detail": {}})
    # N2: in current_timestamp the SOURCE_DATE_EPOCH lookup dominates the clock, and it has a single caller
    ct = "fontbe::head::current_timestamp"
    if ct not in P.bodies:
        raise RuntimeError("fontbe::head::current_timestamp not found")
    body = P.bodies[ct]
    cfg = CFG(body)
    env_b = [s["bi"] for s in P.iter_sites(ct) if s["kind"] == "call" and any(nondet_kind(t) == "env" for t in s["targets"])]
    now_sites = [s for f in [ct] + [k for k in P.bodies if k.startswith(ct + "::{closure")] for s in P.iter_sites(f)
                 if s["kind"] in ("call", "fnref") and any(nondet_kind(t) == "clock" for t in s["targets"])]
    ok = bool(env_b) and bool(now_sites)
    for s in now_sites:
        if s.get("bi") is not None and not any(cfg.dominates(eb, s["bi"]) for eb in env_b) and s in P.iter_sites(ct):
            ok = False
    obl.append({"rule": "N2", "inst": "current_timestamp consults SOURCE_DATE_EPOCH before the clock", "ok": ok})
    if not ok:
        findings.append({"rule": "N2", "key": "N2|epoch-first", "msg": "head::current_timestamp reaches the wall clock on a path that has not consulted SOURCE_DATE_EPOCH: head.created/modified differ between runs even with the epoch pinned",
                         "loc": P.body_file_line(ct), "detail": {}})
    rev = P.rev_edges()
    callers = sorted(c for c in rev.get(ct, ()) if c in P.bodies)
    ok = len(callers) == 1
    obl.append({"rule": "N2", "inst": f"current_timestamp has a single caller {callers}", "ok": ok})
    if not ok:
        findings.append({"rule": "N2", "key": "N2|callers", "msg": f"head::current_timestamp is called from {callers}: more than one place stamps the time", "loc": P.body_file_line(ct), "detail": {}})
    # N3: hidden shared mutable state
    sallow = {e["key"]: e for e in tables.get("e2_tables", {}).get("statics_allowed", [])}
    ns = 0
    for s in P.statics:
        if s["crate"] in ("fontc_bin",) or s.get("exp"):
            continue
        if s["mut"] or not s["freeze"]:
            ns += 1
            e = sallow.get(s["key"])
            ok = e is not None
            obl.append({"rule": "N3", "inst": f"static {s['key']}: {s['ty'][:60]}", "ok": ok})
            if not ok:
                findings.append({"rule": "N3", "key": f"N3|{s['key']}", "msg": f"static {s['key']} ({s['ty'][:80]}) is mutable or has interior mutability: hidden state shared between jobs makes output depend on scheduling", "loc": s["span"], "detail": {}})
    # N4: no parallel reductions (rayon iterators) on the compile path
    npar = 0
    for fn in sorted(reach):
        if fn not in P.bodies or not in_scope(fn):
            continue
        for s in P.iter_sites(fn):
            if s["kind"] == "call" and any(t.startswith("rayon::iter::") or "::par_iter" in t or t.endswith("::par_bridge") or t.endswith("::into_par_iter") for t in s["targets"]):
                npar += 1
                findings.append({"rule": "N4", "key": f"N4|{fn}", "msg": f"{fn} uses a rayon parallel iterator on the compile path: reductions and collects complete in scheduling order", "loc": P.site_loc(fn, s["line"]), "detail": {}})
    obl.append({"rule": "N4", "inst": "no rayon parallel iterators in compile-path functions", "ok": npar == 0})
    return findings, obl, samples, {"nondet_consulting_functions": n, "mutable_statics": ns}


def clippy_crosscheck(P, log=None):
    """thorough tier: an independent, type-resolved implementation of N1 (clippy's disallowed_methods) must report the same
    functions as the driver. Returns (ok, detail dict)."""
    import json
    import os
    import subprocess
    import facts
    conf = os.path.join(facts.VERIF, "tables", "clippy")
    target = os.path.join(facts.CACHE, "clippy-target")
    env = dict(os.environ)
    env["CLIPPY_CONF_DIR"] = conf
    env["CARGO_TARGET_DIR"] = target
    env["CARGO_NET_OFFLINE"] = "true"
    for k in ("RUSTFLAGS", "RUSTC_WORKSPACE_WRAPPER"):
        env.pop(k, None)
    pkgs = []
    for p in ("fontdrasil", "fontir", "fontbe", "fontc", "fea-rs", "ufo2fontir", "glyphs2fontir", "glyphs-reader", "fontra2fontir"):
        pkgs += ["-p", p]
    cmd = ["cargo", "+nightly", "clippy", "--offline", "--message-format=json"] + pkgs + ["--", "-A", "clippy::all", "-W", "clippy::disallowed_methods"]
    r = subprocess.run(cmd, cwd=facts.REPO, env=env, stdout=subprocess.PIPE, stderr=subprocess.PIPE, text=True)
    sites = set()
    for line in r.stdout.splitlines():
        try:
            m = json.loads(line)
        except ValueError:
            continue
        msg = m.get("message") or {}
        code = (msg.get("code") or {}).get("code")
        if code == "clippy::disallowed_methods":
            for sp in msg.get("spans", []):
                if sp.get("is_primary"):
                    sites.add((sp["file_name"], sp["line_start"]))
    if r.returncode != 0 and not sites:
        return None, {"error": r.stderr[-500:]}
    # driver side: lines of N1 references (clock/env/thread/process kinds only)
    mine = set()
    reach = e3.entry_reach(P)
    for fn in reach:
        if fn not in P.bodies:
            continue
        for s in P.iter_sites(fn):
            if s["kind"] in ("call", "fnref") and any(nondet_kind(t) in ("clock", "env", "thread/process identity") for t in s["targets"]):
                loc = P.site_loc(fn, s["line"])
                f, ln = loc.rsplit(":", 1)
                mine.add((f, int(ln)))
    cl = {(f, ln) for f, ln in sites if "/tests/" not in f and not f.endswith("build.rs")}
    only_clippy = sorted(x for x in cl if x not in mine)
    only_driver = sorted(x for x in mine if x not in cl)
    # clippy also sees #[cfg(test)]-free util/bin code that is not reachable from the entry points: only the
    # reverse direction is an error (the driver must not miss a reachable site clippy sees in the same file/line set)
    return (not only_driver), {"clippy_sites": len(cl), "driver_sites": len(mine), "only_clippy": [f"{f}:{l}" for f, l in only_clippy][:20],
                               "only_driver": [f"{f}:{l}" for f, l in only_driver][:20]}


def rule_n6(P):
    """Hidden shared mutable state (C01): the only interior-mutable state a job can reach through the two Context structs are the
    scheduler-ordered slots (ContextItem / ContextMap).  Any other Context field whose type - followed through workspace ADTs -
    contains a lock, atomic, cell or channel is state shared between jobs that no declared dependency orders (seed C01e: a cache
    of variation models behind an RwLock; which job fills it first decides the bytes)."""
    import re
    findings, obl = [], []
    MUT = re.compile(r"\b(RwLock|Mutex|RefCell|Cell|OnceCell|OnceLock|LazyLock|LazyCell|Condvar|Sender|Receiver|DashMap|Atomic[A-Z][A-Za-z0-9]*)\b")
    SLOT = ("fontir::orchestration::ContextItem<", "fontir::orchestration::ContextMap<")
    n = 0
    for ctx in ("fontir::orchestration::Context", "fontbe::orchestration::Context"):
        a = P.adts.get(ctx)
        if not a:
            raise RuntimeError(f"N6: {ctx} not found")
        for v in a["variants"]:
            for f in v["fields"]:
                ty = f["ty"]
                if ty.startswith(SLOT):
                    continue
                n += 1
                seen, todo, hit = set(), [ty], None
                while todo and len(seen) < 200 and not hit:
                    t = todo.pop()
                    if t in seen:
                        continue
                    seen.add(t)
                    if t.startswith(SLOT):
                        continue
                    m = MUT.search(t)
                    if m:
                        hit = (m.group(1), t)
                        break
                    for name in re.findall(r"[A-Za-z_][A-Za-z0-9_]*(?:::[A-Za-z_][A-Za-z0-9_]*)+", t):
                        if name in (ctx, "fontir::orchestration::Context"):
                            continue   # the backend's read-only view of the frontend context is checked as its own struct
                        ad = P.adts.get(name)
                        if ad:
                            for vv in ad["variants"]:
                                for ff in vv["fields"]:
                                    todo.append(ff["ty"])
                ok = hit is None
                obl.append({"rule": "N6", "inst": f"{ctx}.{f['name']} (not a slot) holds no lock/atomic/cell/channel", "ok": ok})
                if not ok:
                    findings.append({"rule": "N6", "key": f"N6|{ctx}.{f['name']}", "msg": f"{ctx}.{f['name']} is not a ContextItem/ContextMap slot but contains {hit[0]} ({hit[1][:90]}): "
                                     f"state shared between jobs outside the scheduler's declared dependencies - whichever job touches it first decides what the others see, so the font depends on the interleaving",
                                     "loc": a.get("span", "?"), "detail": {}})
    if n < 5:
        raise RuntimeError(f"N6: only {n} non-slot Context fields found")
    return findings, obl
