import sys, json, facts, prog, pickle, os
def load(config="default"):
    recs, th, d = facts.load_facts(config, log=open(os.devnull,'w'))
    return prog.Program(recs)
def show(P, key):
    b = P.bodies[key]
    print("==", key, b.get('dk'), b.get('span'), 'argc', b['argc'])
    for i,t in enumerate(b['locals']): print(f"   _{i}: {t}", b['names'].get(str(i),''))
    for bi, blk in enumerate(b['blocks']):
        print(f" bb{bi}{' (cleanup)' if blk['cl'] else ''}:")
        for st in blk['s']:
            print("    ", st['l'], json.dumps(st['d']), '=', json.dumps(st['rv']))
        print("    T", json.dumps(blk['t']))
if __name__ == "__main__":
    P = load()
    for k in sys.argv[1:]:
        for kk in P.find_bodies(k): show(P, kk)
