"""Engine E3 - error discipline (C05 clause a, C15): no tracked error is dropped on the way to the font.

A `Result<_, E>` with tracked E must be propagated (`?`, map_err, returned, stored), matched with its Err payload
used, or unwrap/expect-ed.  Discards (type-resolved, over MIR):
  D-call   Result::<T,E>::{ok, unwrap_or, unwrap_or_default, unwrap_or_else, is_ok, is_err, is_ok_and, map_or, iter, into_iter, and}
  D-drop   a call's Result is never used (`let _ = f()` / statement position)
  D-match  the Result is only tested (discriminant / Ok payload read), its Err payload is never read
  D-log    the Err payload is read only to be formatted into a log line (log-and-continue)
Each site is AUDITED (tables/e3_allow.json, keyed by function + idiom + E, with multiplicity and reason) or a finding.
"""
import re
from collections import defaultdict

from prog import def_sites, operand_local, operand_place
from e1 import split_generics

DISCARD_METHODS = {"ok", "unwrap_or", "unwrap_or_default", "unwrap_or_else", "is_ok", "is_err", "is_ok_and",
                   "is_err_and", "map_or", "iter", "into_iter", "and", "unwrap_unchecked"}
EXTERNAL_TRACKED_PREFIX = ("write_fonts::", "std::io::Error", "std::io::error::Error", "fea_rs::", "norad::", "plist::",
                           "quick_xml::", "serde_yaml::", "serde_json::", "bincode::", "kurbo::", "skrifa::")
ENTRY_ROOTS = ["fontc::run", "fontc::generate_font", "fontc[bin]::main"]


def tracked_error_types(P):
    t = set()
    for imp in P.impls:
        if imp["trait"] == "core::error::Error":
            t.add(imp["self"])
    return t


def is_tracked(E, local_tracked):
    E = E.strip()
    if E in local_tracked:
        return True
    base = E.split("<", 1)[0]
    if base in local_tracked:
        return True
    if E.startswith("std::boxed::Box<dyn std::error::Error") or E.startswith("alloc::boxed::Box<dyn core::error::Error"):
        return True
    return E.startswith(EXTERNAL_TRACKED_PREFIX)


def result_err_type(ty):
    for pre in ("std::result::Result<", "core::result::Result<"):
        if ty.startswith(pre):
            g = split_generics(ty)
            if len(g) == 2:
                return g[1]
    return None


def entry_reach(P):
    roots = [r for r in ENTRY_ROOTS if r in P.bodies]
    if len(roots) < 3:
        raise RuntimeError(f"entry points not found: {roots}")
    return P.reachable(roots)


def discard_sites(P, reach):
    """yield dict(fn, idiom, E, line, callee)"""
    tracked = tracked_error_types(P)
    out = []
    for fn in sorted(reach):
        body = P.bodies.get(fn)
        if not body:
            continue
        # ---- D-call
        for site in P.iter_sites(fn):
            if site["kind"] != "call" or not site["info"]:
                continue
            if body["blocks"][site["bi"]]["cl"]:
                continue
            name = site["info"]["fn"]
            # Result implements IntoIterator: flat_map / flatten over a Result-valued closure or iterator silently
            # drops every Err
            if name in ("core::iter::traits::iterator::Iterator::flat_map", "core::iter::traits::iterator::Iterator::flatten"):
                for g in site["info"]["ga"][1:2] if name.endswith("flat_map") else site["info"]["ga"][:1]:
                    E = result_err_type(g) if name.endswith("flat_map") else None
                    if E is None and name.endswith("flatten"):
                        # Self = some iterator whose Item is Result<..>: look at the destination's inner type
                        mm = re.search(r"(std|core)::result::Result<", g)
                        if mm:
                            E = result_err_type(g[mm.start():]) if g[mm.start():].count("<") else None
                    if E and is_tracked(E, tracked):
                        out.append({"fn": fn, "idiom": "D-iter:" + name.rsplit("::", 1)[1], "E": E, "line": site["line"], "x": site["term"].get("x", 0), "producer": None})
            if name.startswith("core::result::") and name.rsplit("::", 1)[1] in DISCARD_METHODS:
                ga = site["info"]["ga"]
                if len(ga) >= 2 and is_tracked(ga[1], tracked):
                    out.append({"fn": fn, "idiom": "D-call:" + name.rsplit("::", 1)[1], "E": ga[1], "line": site["line"], "x": site["term"].get("x", 0),
                                "producer": producer_of(P, body, site["term"]["a"][0])})
        for site in P.iter_sites(fn):
            if site["kind"] == "fnref" and site["info"]:
                name = site["info"]["fn"]
                if name.startswith("core::result::") and name.rsplit("::", 1)[1] in ("ok", "unwrap_or_default", "is_ok", "is_err"):
                    ga = site["info"]["ga"]
                    if len(ga) >= 2 and is_tracked(ga[1], tracked):
                        out.append({"fn": fn, "idiom": "D-call:" + name.rsplit("::", 1)[1] + "(fn value)", "E": ga[1], "line": site["line"], "x": 0, "producer": None})
        # ---- D-drop / D-match: locals defined by calls returning Result<_, tracked>
        uses = None
        for bi, blk in enumerate(body["blocks"]):
            if blk["cl"]:
                continue
            t = blk["t"]
            if t["t"] != "call" or len(t["d"]) != 1 or t["d"][0] == 0:
                continue
            E = result_err_type(t.get("dty", ""))
            if not E or not is_tracked(E, tracked):
                continue
            k = t["f"].get("k")
            callee = (k.get("res") or k.get("fn")) if k else "?"
            # skip the result methods themselves (map_err etc. return Results that flow on)
            if uses is None:
                uses = collect_uses(body)
            verdict = classify(body, uses, t["d"][0])
            if verdict in ("D-drop", "D-match", "D-log"):
                out.append({"fn": fn, "idiom": verdict, "E": E, "line": t["l"], "callee": callee, "x": t.get("x", 0)})
    return out, tracked


def producer_of(P, body, op):
    """the call that produced the Result handed to a discard method (first call found walking back through refs/moves)"""
    from prog import backward_slice
    l = operand_local(op)
    if l is None:
        return None
    defs = def_sites(body)
    seen = set()
    work = [l]
    while work:
        x = work.pop()
        if x in seen:
            continue
        seen.add(x)
        for d in defs.get(x, ()):
            if d[0] == "call":
                k = d[3]["f"].get("k")
                return (k.get("res") or k.get("fn")) if k else "?"
            rv = d[3]["rv"]
            for o in rv.get("o", []):
                ol = operand_local(o)
                if ol is not None:
                    work.append(ol)
            if "p" in rv:
                work.append(rv["p"][0])
    return None


def collect_uses(body):
    """local -> list of (kind, detail) over non-cleanup blocks.
    kinds: 'arg' (passed to a call), 'ret', 'discr', 'ok_payload', 'err_payload', 'move:<local>', 'agg', 'ref', 'other', 'drop'"""
    uses = defaultdict(list)

    def op_use(op, ctx, extra=None):
        p = operand_place(op)
        if not p:
            return
        l = p[0]
        proj = p[1:]
        if not proj:
            uses[l].append((ctx, extra))
        else:
            if any(e == "d:Err" for e in proj):
                uses[l].append(("err_payload", None))
            elif any(e == "d:Ok" for e in proj):
                uses[l].append(("ok_payload", None))
            else:
                uses[l].append(("other", None))

    for bi, blk in enumerate(body["blocks"]):
        if blk["cl"]:
            continue
        for st in blk["s"]:
            rv = st["rv"]
            r = rv.get("r")
            d = st["d"]
            if r == "discr":
                p = rv["p"]
                if len(p) == 1:
                    uses[p[0]].append(("discr", None))
                elif any(e == "d:Err" for e in p[1:]):
                    uses[p[0]].append(("err_payload", None))
                elif any(e == "d:Ok" for e in p[1:]):
                    uses[p[0]].append(("ok_payload", None))
                else:
                    uses[p[0]].append(("other", None))
                continue
            if r in ("ref", "rawptr"):
                p = rv["p"]
                if any(e == "d:Err" for e in p[1:]):
                    uses[p[0]].append(("err_payload", None))
                elif any(e == "d:Ok" for e in p[1:]):
                    uses[p[0]].append(("ok_payload", None))
                else:
                    uses[p[0]].append(("ref", d[0] if len(d) == 1 else None))
                continue
            for op in rv.get("o", []):
                if r == "use" and len(d) == 1:
                    if d[0] == 0:
                        op_use(op, "ret")
                    else:
                        op_use(op, "move", d[0])
                elif r == "agg":
                    op_use(op, "agg")
                else:
                    op_use(op, "other")
        t = blk["t"]
        if t["t"] == "call":
            for op in t["a"]:
                op_use(op, "arg")
            fl = operand_local(t["f"])
            if fl is not None:
                uses[fl].append(("other", None))
        elif t["t"] == "drop":
            uses[t["p"][0]].append(("drop", None))
        elif t["t"] == "sw":
            op_use(t["o"], "other")
        elif t["t"] == "assert":
            for op in t.get("o", []):
                op_use(op, "other")
    return uses


def err_payload_only_logged(body, local):
    """True iff every read of (local as Err).0 only feeds formatting machinery whose result goes to log::__private_api::log
    (the error is reported to the log and then forgotten: the function carries on as if the step had succeeded)."""
    from prog import def_sites
    # locals holding the payload or a reference to it
    holders = set()
    for blk in body["blocks"]:
        if blk["cl"]:
            continue
        for st in blk["s"]:
            rv = st["rv"]
            places = [operand_place(o) for o in rv.get("o", [])] + ([rv["p"]] if "p" in rv else [])
            for p in places:
                if p and p[0] == local and any(e == "d:Err" for e in p[1:]) and len(st["d"]) == 1:
                    holders.add(st["d"][0])
    if not holders:
        return False
    # forward closure through moves/refs/aggregates/calls; collect terminal callees
    seen = set(holders)
    work = list(holders)
    sinks = []
    escaped = False
    while work:
        l = work.pop()
        for blk in body["blocks"]:
            if blk["cl"]:
                continue
            for st in blk["s"]:
                rv = st["rv"]
                srcs = [operand_local(o) for o in rv.get("o", [])] + ([rv["p"][0]] if "p" in rv else [])
                if l in srcs:
                    d = st["d"]
                    if d[0] == 0:
                        escaped = True
                    elif d[0] not in seen:
                        seen.add(d[0])
                        work.append(d[0])
            t = blk["t"]
            if t["t"] == "call" and any(operand_local(a) == l for a in t["a"]):
                k = t["f"].get("k")
                callee = (k.get("res") or k.get("fn")) if k else "?"
                if callee.startswith("core::fmt::") or callee.startswith("alloc::fmt::format") or callee.endswith("::must_use") \
                        or callee.endswith("::deref") or callee.endswith("::as_ref") or callee.endswith("::to_string") or callee.endswith("Display::fmt"):
                    if len(t["d"]) == 1 and t["d"][0] not in seen:
                        if t["d"][0] == 0:
                            escaped = True
                        seen.add(t["d"][0])
                        work.append(t["d"][0])
                elif callee.startswith("log::__private_api::log"):
                    sinks.append("log")
                else:
                    sinks.append(callee)
            elif t["t"] == "sw" and operand_local(t["o"]) == l:
                sinks.append("switch")
    return bool(sinks) and not escaped and all(x == "log" for x in sinks)


def classify(body, uses, local, depth=0):
    us = uses.get(local, [])
    kinds = {k for k, _ in us}
    if "err_payload" in kinds and not (kinds & {"arg", "ret", "agg", "other"}):
        if err_payload_only_logged(body, local):
            return "D-log"
    if kinds & {"arg", "ret", "agg", "other", "err_payload"}:
        return "used"
    # follow moves and refs (a `match &r` borrows first)
    for k, extra in us:
        if k in ("move", "ref") and extra is not None and depth < 3:
            v = classify(body, uses, extra, depth + 1)
            if v == "used":
                return "used"
            if v in ("D-match", "D-log"):
                return v
        elif k in ("move", "ref") and extra is None:
            return "used"
    if "discr" in kinds or "ok_payload" in kinds:
        return "D-match"
    if not kinds - {"drop", "move", "ref"}:
        return "D-drop"
    return "used"


def run(P, tables):
    from common import norm_fn
    findings, obl, samples = [], [], []
    reach = entry_reach(P)
    sites, tracked = discard_sites(P, reach)
    allow = {}
    for e in tables.get("e3_allow", {}).get("allow", []):
        allow[(e["fn"], e["idiom"], e["E"])] = e
    probes = {e["fn"]: e for e in tables.get("e3_allow", {}).get("probe_functions", [])}
    grouped = defaultdict(list)
    n_probe = 0
    for s in sites:
        if s["idiom"] in ("D-call:is_ok", "D-call:is_err") and s.get("producer") in probes:
            n_probe += 1
            continue
        if s["idiom"] == "D-match" and s.get("callee") in probes:
            n_probe += 1
            continue
        grouped[(norm_fn(s["fn"]), s["idiom"], s["E"])].append(s)
    obl.append({"rule": "E3", "inst": f"{n_probe} is_ok()/is_err() tests on results of audited probe functions {sorted(probes)}", "ok": True})
    used = set()
    for key, ss in sorted(grouped.items()):
        e = allow.get(key)
        n = len(ss)
        if e and n <= e.get("count", 1):
            used.add(key)
            obl.append({"rule": "E3", "inst": f"{key[0]} {key[1]} on Result<_, {key[2]}> x{n}: audited ({e['reason'][:80]})", "ok": True})
            if len(samples) < 6:
                samples.append({"rule": "E3", "site": P.site_loc(ss[0]["fn"], ss[0]["line"]), "idiom": key[1], "error_type": key[2], "verdict": "audited: " + e["reason"]})
            continue
        obl.append({"rule": "E3", "inst": f"{key[0]} {key[1]} on Result<_, {key[2]}> x{n}", "ok": False})
        extra = f" (audited count {e['count']} exceeded)" if e else ""
        findings.append({"rule": "E3", "key": f"E3|{key[0]}|{key[1]}|{key[2]}",
                         "msg": f"{key[0]} discards a Result<_, {key[2]}> ({key[1]}, {n} site(s)){extra}: the error never reaches the caller, so a failed step can still end in a font reported as built",
                         "loc": P.site_loc(ss[0]["fn"], ss[0]["line"]), "detail": {"lines": [s["line"] for s in ss], "callee": ss[0].get("callee"), "producer": ss[0].get("producer")}})
    stale = sorted(f"{k[0]}|{k[1]}|{k[2]}" for k in set(allow) - used)
    stats = {"functions_scanned": len([r for r in reach if r in P.bodies]), "tracked_local_error_types": len(tracked),
             "discard_sites": len(sites), "site_groups": len(grouped), "stale_allow_entries": stale}
    return findings, obl, samples, stats
