"""E7: token-consumption (progress) analysis of the fea-rs recursive-descent parser (C13 termination clause, C15 hang clause).

Claim decided here: every loop in the parser domain (functions that take the `Parser`) consumes at least one non-EOF lexeme on
every trip round the loop (or is driven by a std iterator).  The lexeme stream is finite, so no such loop can spin.

Method: a context-sensitive forward dataflow over MIR.  Abstract state = (consumed?, set of facts about the *current* token,
may-have-bumped?, iterated?) plus, per bool/enum local, what is known *if that local has a given value* (so `if p.eat(X) {..}`,
`a() || b()`, `x & y`, `assert!(p.eat(..))`, `opt.is_none()` and `match opt {..}` are path-sensitive) plus a small abstract value
per local (function value, token-kind constant, lexeme / kind / raw text of the current token, position snapshot).
Higher-order combinators (`in_node(kind, closure)`, `greedy(f)(p, r)`) are analysed per binding of their function-valued
parameters / captures; `eat(K)` is analysed per kind constant.  Function summaries are the greatest fixed point (a summary says:
*if* the call returns with outcome o, then ...); loops are then checked one header at a time.

Facts about the current token: NOTEOF, and "matches comparable X" (X = a Kind variant or a TokenSet constant).  They are
established by `matches(0, X)` being true, `at_eof()` being false, a `match nth(k).kind {..}` arm for a non-Eof kind,
`nth(k).kind == Eof` being false, `nth_raw(0) == b"non-empty"` being true; all of them die at a bump.

Primitives (audited, tables/e7_tables.json):
  bump      Parser::do_bump / Parser::advance      consumes one lexeme iff not at EOF; afterwards nothing is known
  at_eof    Parser::at_eof
  matches0  Parser::matches(0, k)                   (A1: no TokenComparable argument matches Eof)
  nth / nth_raw / nth_range / to_token_kind         value sources for the idioms above
Position idiom: `let start = p.nth_range(0).start; ...; p.nth_range(0).start != start` is true only if a lexeme was consumed
in between (nth_range(0).start moves only in Parser::advance).
"""
import re
from collections import defaultdict

from prog import CFG, operand_local

E = frozenset()

FN_TRAIT_CALLS = ("core::ops::function::FnOnce::call_once", "core::ops::function::FnMut::call_mut", "core::ops::function::Fn::call")
ENUM_IDX = {"core::option::Option": {"None": "0", "Some": "1"}, "core::result::Result": {"Ok": "0", "Err": "1"}}
CUR_KINDS = ("lex", "tk", "tkd", "raw", "buf")     # abstract values derived from the current token: stale after a bump
TRANSPARENT = ("fn", "closure", "kid", "ts", "kidarr", "bstr", "buf", "lex", "tk", "tkd", "raw", "snap")


class E7Error(Exception):
    pass


# A "world value" W = (w0, w1):
#   w0  facts (frozenset) that hold on every path that has NOT consumed a lexeme since the reference point, or None if
#       there is no such path;
#   w1  True if some path that HAS consumed may reach here.
# DEAD = (None, False) is "unreachable".  Only w0 carries facts: once something is consumed nothing else matters for progress,
# w1 only keeps later code reachable so that it is still analysed.
DEAD = (None, False)


def is_emit(x):
    return isinstance(x, tuple) and len(x) == 3 and x[0] == "E"


def join_facts(fa, fb):
    """facts that hold on both paths.  Ordinary facts: intersection.  Emission atoms ('E', depth, kinds) mean "a child whose kind is
    in `kinds` was emitted into the frame at `depth`": if one path emitted a child in Sa and the other a child in Sb, both emitted
    a child in Sa|Sb."""
    common = fa & fb
    ea = [x for x in fa if is_emit(x) and x not in common]
    eb = [x for x in fb if is_emit(x) and x not in common]
    if not ea or not eb:
        return common
    out = set(common)
    n = 0
    for x in ea:
        for y in eb:
            if x[1] == y[1]:
                u = x[2] | y[2]
                if len(u) <= 16:
                    out.add(("E", x[1], u))
                    n += 1
                    if n > 60:
                        return frozenset(out)
    return frozenset(out)


def jv(a, b):
    """join over paths"""
    w0 = a[0] if b[0] is None else (b[0] if a[0] is None else join_facts(a[0], b[0]))
    return (w0, a[1] or b[1])


def both(a, b):
    """both conditions hold"""
    if a == DEAD or b == DEAD:
        return DEAD
    w0 = None if (a[0] is None or b[0] is None) else a[0] | b[0]
    return (w0, a[1] or b[1])


def alive(w):
    return w[0] is not None or w[1]


class State:
    __slots__ = ("w0", "w1", "b", "it", "cond", "val", "frames")

    def __init__(self, w0=E, w1=False, b=0, it=0, cond=None, val=None, frames=()):
        self.w0, self.w1, self.b, self.it = w0, w1, b, it
        self.frames = frames     # shape mode: kinds of the tree nodes opened (start_node) and not yet finished in this function
        self.cond = cond if cond is not None else {}   # local -> (dict outcome->W, default W)
        self.val = val if val is not None else {}      # local -> abstract value tuple

    def copy(self):
        return State(self.w0, self.w1, self.b, self.it, {k: (dict(v[0]), v[1]) for k, v in self.cond.items()}, dict(self.val), self.frames)

    def key(self):
        return (self.w0, self.w1, self.b, self.it, tuple(sorted((k, tuple(sorted(v[0].items(), key=str)), v[1]) for k, v in self.cond.items())),
                tuple(sorted(self.val.items(), key=str)), self.frames)

    def base(self):
        return (self.w0, self.w1)

    def set_base(self, w):
        self.w0, self.w1 = w

    def combine(self, v):
        """a conditional value recorded earlier, seen from the current point"""
        if v == DEAD or not alive(self.base()):
            return DEAD
        w0 = None if (v[0] is None or self.w0 is None) else v[0] | self.w0
        return (w0, v[1] or self.w1)

    def lookup(self, l, o):
        cv = self.cond.get(l)
        if cv is None:
            return self.base()
        return self.combine(cv[0].get(o, cv[1]))

    def kill(self, l):
        self.cond.pop(l, None)
        self.val.pop(l, None)

    def bumped(self, eof_only):
        """a bump may have happened: facts about the current token are stale.  On a path that still has not consumed anything the
        bump was at EOF, so there the current token is (still) Eof."""
        self.b = 1
        for l, (d, df) in list(self.cond.items()):
            def stale(v):
                if v[0] is None:
                    return (None, v[1])
                return (frozenset(eof_only) | frozenset(x for x in v[0] if is_emit(x)), v[1])
            nd = {o: stale(v) for o, v in d.items()}
            self.cond[l] = (nd, stale(df))
        for l in [l for l, v in self.val.items() if v[0] in CUR_KINDS]:
            del self.val[l]


def join(a, b):
    if a is None:
        return b.copy()
    if b is None:
        return a.copy()
    w = jv(a.base(), b.base())
    r = State(w[0], w[1], a.b | b.b, a.it & b.it, frames=a.frames if len(a.frames) <= len(b.frames) else b.frames)
    for l in set(a.cond) | set(b.cond):
        ca, cb = a.cond.get(l), b.cond.get(l)
        outs = set()
        if ca:
            outs |= set(ca[0])
        if cb:
            outs |= set(cb[0])
        d = {}
        for o in outs:
            d[o] = jv(a.lookup(l, o), b.lookup(l, o))
        da = a.base() if ca is None else a.combine(ca[1])
        db = b.base() if cb is None else b.combine(cb[1])
        r.cond[l] = (d, jv(da, db))
    for l, v in a.val.items():
        if b.val.get(l) == v:
            r.val[l] = v
    return r


class Domain:
    """the parser domain: which type marks a function as in-domain, and the primitive table"""

    def __init__(self, P, spec):
        self.P = P
        self.type_marker = spec["type_marker"]
        self.prims = {}
        for p in spec["primitives"]:
            keys = [k for k, b in P.bodies.items() if (b.get("impl_self") or "").split("<")[0] == p["impl_self"] and k.rsplit("::", 1)[1] == p["name"]]
            if len(keys) != 1:
                raise E7Error(f"primitive {p['impl_self']}::{p['name']} not found exactly once: {keys}")
            self.prims[keys[0]] = p["kind"]
        self.roots = spec.get("roots", [])
        self.eof_variant = spec.get("eof_variant", "Eof")
        self.lexeme_kind_adt = spec.get("lexeme_kind_adt")
        self.ast_kind_adt = spec.get("ast_kind_adt")
        self.tokenset_ty = spec.get("tokenset_ty")
        la = P.adts.get(self.lexeme_kind_adt)
        if not la:
            raise E7Error("lexeme kind enum not found")
        self.lex_idx = {v["name"]: i for i, v in enumerate(la["variants"])}
        self.nk = len(self.lex_idx)
        if (self.nk > 128 and self.tokenset_ty) or self.eof_variant not in self.lex_idx:
            raise E7Error("lexeme kind enum has an unexpected shape")
        self.buffer_field = spec.get("buffer_field")
        self.NE = self.lex_idx[self.eof_variant]
        self.ALL = frozenset(range(self.nk))
        self.EOF_ONLY = self.ALL - {self.NE}
        # preimage of every tree-token kind under Kind::to_token_kind (read off its MIR: one switch, one aggregate per arm)
        self.pre = defaultdict(set)
        tk = [k for k, kind in self.prims.items() if kind == "to_token_kind"]
        if not tk and not self.ast_kind_adt:
            return      # a domain whose tokens already are tree kinds (the rewriter)
        if len(tk) != 1:
            raise E7Error("to_token_kind primitive missing")
        tb = P.bodies[tk[0]]
        sw = tb["blocks"][0]["t"]
        if sw["t"] != "sw" or len(sw["v"]) < self.nk - 1:
            raise E7Error("to_token_kind is no longer a single exhaustive match")
        for x, tg in zip(sw["v"] + ["*"], sw["to"]):
            aggs = [st["rv"] for st in tb["blocks"][tg]["s"] if st["d"] == [0] and st["rv"].get("r") == "agg"]
            if x == "*":
                rest = [i for i in range(self.nk) if str(i) not in sw["v"]]
                if not rest:
                    continue
                if len(aggs) != 1:
                    raise E7Error("to_token_kind: default arm not understood")
                for i in rest:
                    self.pre[aggs[0]["v"]].add(i)
                continue
            if len(aggs) == 0:
                continue   # arm panics (kinds that never reach the parser)
            if len(aggs) != 1:
                raise E7Error(f"to_token_kind: arm {x} not understood")
            self.pre[aggs[0]["v"]].add(int(x))
        self.post = {}
        for name, idxs in self.pre.items():
            for i in idxs:
                self.post[i] = name

    def comparable_set(self, v):
        """set of lexeme-kind indices a TokenComparable value matches, if known exactly"""
        if v is None:
            return None
        if v[0] == "ts":
            return frozenset(i for i in range(128) if (v[1] >> i) & 1)
        if v[0] == "kid":
            adt, _, name = v[1].rpartition("::")
            if adt == self.lexeme_kind_adt and name in self.lex_idx:
                return frozenset([self.lex_idx[name]])
            if adt == self.ast_kind_adt:
                return frozenset(self.pre.get(name, ()))
        return None

    def in_domain_ty(self, ty):
        return self.type_marker in ty


class Analysis:
    def __init__(self, P, dom, mode="progress"):
        self.P = P
        self.dom = dom
        # "progress": facts live only on paths that have not consumed yet (loop check).  "facts": facts about the current token
        # are tracked on every path and merely reset at a bump (feasibility of assertion failures).
        self.mode = mode
        self.summ = {}
        self.deps = defaultdict(set)
        self.dirty = []
        self.in_states = {}
        self.opaque = defaultdict(set)
        self.cfgs = {}
        self.max_ctx = 20000
        self.calls = defaultdict(set)   # ctx -> contexts it asked for in its latest analysis (+ its loop checks)
        self.shape = defaultdict(dict)  # shape mode: node kind -> {(ctx, site): set of emission kind-sets on error-free paths}
        self._promoted_kid = {}

    # ---------------------------------------------------------------- helpers
    def cfg(self, key):
        if key not in self.cfgs:
            self.cfgs[key] = CFG(self.P.bodies[key])
        return self.cfgs[key]

    def outcomes_of(self, ty):
        if ty == "bool":
            return ("0", "1")
        if re.match(r"(std|core)::(option::Option|result::Result)<", ty):
            return ("0", "1")
        if re.match(r"[A-Z]\w*$", ty):
            # a type parameter (e.g. `in_node<R>` returns its closure's result): keep two-valued outcomes; for other
            # instantiations both simply equal the unconditional state
            return ("0", "1")
        return ("*",)

    def relevant(self, key):
        b = self.P.bodies.get(key)
        if b is None:
            return False
        for i in range(1, b["argc"] + 1):
            if self.dom.in_domain_ty(b["locals"][i]):
                return True
        return False

    def get_summary(self, ctx, caller):
        self.deps[ctx].add(caller)
        self.calls[caller].add(ctx)
        if ctx not in self.summ:
            if len(self.summ) > self.max_ctx:
                raise E7Error("too many analysis contexts")
            outs = {o: DEAD for o in self.outcomes_of(self.P.bodies[ctx[0]]["locals"][0])}
            self.summ[ctx] = {"outs": outs, "retv": None, "bump": 0, "fresh": True}
            self.dirty.append(ctx)
        return self.summ[ctx]

    def variant_name(self, adt, idx):
        a = self.P.adts.get(adt)
        if not a:
            return None
        vs = a.get("variants") or []
        i = int(idx)
        if 0 <= i < len(vs):
            return vs[i]["name"]
        return None

    def const_kid(self, k):
        """ident of a constant operand (a named const, or a promoted holding one enum aggregate)"""
        if "uneval" not in k:
            return None
        if "promoted" in k:
            key = f"{k['uneval']}#promoted{k['promoted']}"
            if key not in self._promoted_kid:
                r = None
                b = self.P.bodies.get(key)
                if b:
                    aggs = [s["rv"] for blk in b["blocks"] for s in blk["s"] if s["rv"].get("r") == "agg" and s["rv"].get("ak") == "adt"]
                    arrs = [s["rv"] for blk in b["blocks"] for s in blk["s"] if s["rv"].get("r") == "agg" and s["rv"].get("ak") == "array"]
                    bstrs = [o["k"]["bstr"] for blk in b["blocks"] for s in blk["s"] for o in s["rv"].get("o", []) if "bstr" in (o.get("k") or {})]
                    if len(bstrs) == 1 and not aggs and not arrs:
                        r = ("bstr", bstrs[0])
                    elif len(aggs) == 1 and not aggs[0].get("o") and not arrs:
                        r = ("kid", f"{aggs[0]['adt']}::{aggs[0]['v']}")
                    elif len(arrs) == 1 and aggs and all(a["adt"] == self.dom.lexeme_kind_adt and not a.get("o") for a in aggs) \
                            and len(aggs) == len(arrs[0].get("o", [])):
                        r = ("kidarr", frozenset(self.dom.lex_idx[a["v"]] for a in aggs))
                self._promoted_kid[key] = r
            return self._promoted_kid[key]
        return ("kid", "const:" + k["uneval"])

    # ---------------------------------------------------------------- abstract values of operands / places
    def place_val(self, ctx, st, pl):
        if len(pl) == 1:
            return st.val.get(pl[0])
        if len(pl) == 2 and pl[1] == "*":
            v = st.val.get(pl[0])
            if v and v[0] in TRANSPARENT:
                return v
            if v and v[0] == "ref":
                return st.val.get(v[1])
            return None
        if pl[0] == 1 and ctx[1]:
            fields = [e for e in pl[1:] if e != "*"]
            if len(fields) == 1 and isinstance(fields[0], str) and fields[0].startswith("f:") and fields[0].endswith("{closure}"):
                idx = int(fields[0].split(":")[1])
                return dict(ctx[1]).get(("u", idx))
        if self.dom.buffer_field and any(isinstance(e, str) and e.startswith("f:" + self.dom.buffer_field + ":") for e in pl[1:]):
            body = self.P.bodies[ctx[0]]
            if self.dom.in_domain_ty(body["locals"][pl[0]]):
                return ("buf",)
        # field projections of tracked values
        v = st.val.get(pl[0])
        fields = [e for e in pl[1:] if e != "*"]
        if v and len(fields) == 1 and isinstance(fields[0], str):
            f = fields[0]
            if v[0] == "lex" and f.startswith("f:kind:"):
                return ("tk", v[1])
            if v[0] == "snaprange" and f.startswith("f:start:"):
                return ("snap",)
        return None

    def op_val(self, ctx, st, op):
        k = op.get("k")
        if k is not None:
            if "fn" in k:
                return ("fn", k.get("res") or k["fn"])
            if "scalar" in k and k.get("ty") == self.dom.tokenset_ty:
                return ("ts", int(k["scalar"]))
            if "bstr" in k:
                return ("bstr", k["bstr"])
            if "uneval" in k:
                return self.const_kid(k)
            return None
        pl = op.get("m") or op.get("c")
        if pl:
            return self.place_val(ctx, st, pl)
        return None

    # ---------------------------------------------------------------- transfer
    def transfer_stmt(self, ctx, st, s):
        d = s["d"]
        rv = s["rv"]
        if len(d) != 1:
            if d:
                st.kill(d[0])
            return
        dl = d[0]
        r = rv.get("r")
        new_cond = None
        new_val = None
        if r == "use":
            op = rv["o"][0]
            k = op.get("k")
            if k is not None:
                if k.get("ty") == "bool" and "int" in k:
                    v = k["int"]
                    new_cond = ({v: st.base(), ("1" if v == "0" else "0"): DEAD}, DEAD)
                else:
                    new_val = self.op_val(ctx, st, op)
            else:
                pl = op.get("m") or op.get("c")
                if pl:
                    if len(pl) == 1 and pl[0] in st.cond:
                        cv = st.cond[pl[0]]
                        new_cond = (dict(cv[0]), cv[1])
                    new_val = self.place_val(ctx, st, pl)
        elif r == "ref":
            pl = rv["p"]
            v = self.place_val(ctx, st, pl)
            if v is not None and v[0] in TRANSPARENT:
                new_val = v
            elif len(pl) == 1:
                new_val = ("ref", pl[0])
            elif len(pl) == 2 and pl[1] == "*" and v is not None:
                new_val = v
        elif r == "cast":
            ops = rv.get("o") or []
            if ops:
                v = self.op_val(ctx, st, ops[0])
                if v is not None and v[0] in ("kidarr", "fn", "closure"):
                    new_val = v
        elif r == "un" and rv.get("op") == "Not":
            l = operand_local(rv["o"][0])
            if l is not None and l in st.cond:
                new_cond = ({"0": st.lookup(l, "1"), "1": st.lookup(l, "0")}, DEAD)
        elif r == "bin" and rv.get("op") in ("BitAnd", "BitOr") and rv.get("lty") == "bool":
            vals = []
            for op in rv["o"]:
                l = operand_local(op)
                k = op.get("k")
                if k is not None and "int" in k:
                    v = k["int"]
                    vals.append({v: st.base(), ("1" if v == "0" else "0"): DEAD})
                elif l is not None:
                    vals.append({"0": st.lookup(l, "0"), "1": st.lookup(l, "1")})
                else:
                    vals.append({"0": st.base(), "1": st.base()})
            a, b = vals
            if rv["op"] == "BitAnd":
                new_cond = ({"1": both(a["1"], b["1"]), "0": jv(a["0"], b["0"])}, DEAD)
            else:
                new_cond = ({"0": both(a["0"], b["0"]), "1": jv(a["1"], b["1"])}, DEAD)
        elif r == "bin" and rv.get("op") in ("Ne", "Eq"):
            va = [self.op_val(ctx, st, o) for o in rv["o"]]
            if self.mode == "progress" and all(v is not None and v[0] == "snap" for v in va):
                # the position of the current lexeme differs from an earlier snapshot only if something was consumed
                moved = (None, alive(st.base()))
                if rv["op"] == "Ne":
                    new_cond = ({"1": moved, "0": st.base()}, DEAD)
                else:
                    new_cond = ({"0": moved, "1": st.base()}, DEAD)
        elif r == "discr":
            pl = rv["p"]
            if len(pl) == 1 and pl[0] in st.cond:
                cv = st.cond[pl[0]]
                new_cond = (dict(cv[0]), cv[1])
            v = self.place_val(ctx, st, pl)
            if v is not None and v[0] == "tk":
                body = self.P.bodies[ctx[0]]
                ty = body["locals"][pl[0]] if len(pl) == 1 else self.dom.lexeme_kind_adt
                if ty:
                    new_val = ("tkd", v[1], ty.lstrip("&").strip())
        elif r == "agg":
            if rv.get("ak") == "closure":
                body = self.P.bodies[ctx[0]]
                ups = tuple(self.op_val(ctx, st, o) for o in rv.get("o", []))
                capmut = 0
                for o in rv.get("o", []):
                    pl = o.get("m") or o.get("c")
                    if pl:
                        ty = body["locals"][pl[0]]
                        if self.dom.in_domain_ty(ty) and "&mut" in ty:
                            capmut = 1
                new_val = ("closure", rv["def"], ups, capmut)
            elif rv.get("ak") == "tuple":
                els = tuple(self.op_val(ctx, st, o) for o in rv.get("o", []))
                if any(e is not None and e[0] in ("fn", "closure", "kid", "ts") for e in els):
                    new_val = ("tuple", els)
            elif rv.get("ak") == "adt":
                adt = rv.get("adt")
                idx = None
                if adt in ENUM_IDX:
                    idx = ENUM_IDX[adt].get(rv.get("v"))
                elif adt in self.P.adts and not rv.get("o"):
                    new_val = ("kid", f"{adt}::{rv.get('v')}")
                    if adt == self.dom.ast_kind_adt and self.mode == "shape":
                        new_cond = ({rv.get("v"): st.base()}, DEAD)
                if idx is not None:
                    new_cond = ({idx: st.base()}, DEAD)
        st.kill(dl)
        if new_cond is not None:
            st.cond[dl] = new_cond
        if new_val is not None:
            st.val[dl] = new_val

    def callee_of(self, ctx, st, t):
        f = t["f"]
        k = f.get("k")
        if not k or "fn" not in k:
            pl = f.get("m") or f.get("c")
            v = self.place_val(ctx, st, pl) if pl else None
            if v is None or v[0] not in ("fn", "closure"):
                return ("opaque", "<fn pointer>")
            return self.ctx_for_fv(v)
        name = k.get("res") or k["fn"]
        if k["fn"] in FN_TRAIT_CALLS:
            v = self.op_val(ctx, st, t["a"][0])
            if (v is None or v[0] not in ("fn", "closure")) and k.get("res") and k["res"] in self.P.bodies:
                v = ("closure", k["res"], (), 1) if self.P.bodies[k["res"]].get("dk") == "Closure" else ("fn", k["res"])
            if v is None or v[0] not in ("fn", "closure"):
                return ("opaque", k["fn"])
            args = self.op_val(ctx, st, t["a"][1]) if len(t["a"]) > 1 else None
            return self.ctx_for_fv(v, args)
        if name in self.dom.prims:
            return ("prim", self.dom.prims[name])
        if k.get("trait") == "core::iter::traits::iterator::Iterator" and k["fn"].endswith("::next"):
            return ("prim", "iter_next")
        if k["fn"] == "core::iter::traits::double_ended::DoubleEndedIterator::next_back":
            return ("prim", "iter_next")
        if re.match(r"core::option::\{impl#\d+\}::is_(some|none)$", name):
            return ("prim", "is_some" if name.endswith("is_some") else "is_none")
        if k["fn"] in ("core::convert::Into::into", "core::convert::From::from") and t.get("dty") == self.dom.tokenset_ty:
            return ("prim", "ts_from")
        if self.dom.buffer_field and re.match(r"core::slice::\{impl#\d+\}::is_empty$", name):
            v = self.op_val(ctx, st, t["a"][0])
            if v is not None and v[0] == "buf":
                return ("prim", "buf_is_empty")
        if k["fn"] in ("core::cmp::PartialEq::eq", "core::cmp::PartialEq::ne"):
            return ("prim", "eq" if k["fn"].endswith("::eq") else "ne")
        if name in self.P.bodies and not k.get("virt"):
            env = []
            for i, a in enumerate(t["a"]):
                v = self.op_val(ctx, st, a)
                if v is not None and v[0] in ("fn", "closure", "kid", "ts", "tk"):
                    env.append((("p", i + 1), v))
            if self.relevant(name) or any(v[0] in ("fn", "closure", "tk") for _, v in env):
                return ("ctx", (name, tuple(env)))
            return ("nop", name)
        return ("ext", name)

    def ctx_for_fv(self, v, args=None):
        """args: abstract value of the argument tuple of an Fn*::call*"""
        first = 1 if v[0] == "fn" else 2      # a closure body's first parameter is the closure itself
        penv = ()
        if args is not None and args[0] == "tuple":
            penv = tuple((("p", first + i), e) for i, e in enumerate(args[1]) if e is not None and e[0] in ("fn", "closure", "kid", "ts"))
        if v[0] == "fn":
            if v[1] in self.P.bodies:
                return ("ctx", (v[1], penv))
            return ("ext", v[1])
        env = tuple((("u", i), u) for i, u in enumerate(v[2]) if u is not None and u[0] != "ref") + penv
        if v[1] in self.P.bodies:
            return ("ctx", (v[1], env))
        return ("opaque", v[1])

    def closure_must_push(self, fvv):
        """tree kinds that a split function pushes (inside a tuple handed to Vec::push) on every path to its return"""
        if fvv is None or fvv[0] not in ("closure", "fn") or fvv[1] not in self.P.bodies:
            return set()
        b = self.P.bodies[fvv[1]]
        cfg = self.cfg(fvv[1])
        by_kind = defaultdict(set)
        for bi, blk in enumerate(b["blocks"]):
            if blk["cl"]:
                continue
            t = blk["t"]
            if t["t"] != "call" or not ((t["f"].get("k") or {}).get("res") or "").endswith("::push"):
                continue
            # kinds mentioned in the aggregates of this block (the pushed tuple)
            for st_ in blk["s"]:
                rv = st_["rv"]
                if rv.get("r") == "agg" and rv.get("ak") == "adt" and rv.get("adt") == self.dom.ast_kind_adt and not rv.get("o"):
                    by_kind[rv.get("v")].add(bi)
        out = set()
        for kname, blocks in by_kind.items():
            if cfg.must_pass(blocks):
                out.add(kname)
        return out

    def passes_domain_mut(self, ctx, st, t):
        body = self.P.bodies[ctx[0]]
        for a in t["a"]:
            pl = a.get("m") or a.get("c")
            if not pl:
                continue
            ty = body["locals"][pl[0]]
            if len(pl) == 1 and self.dom.in_domain_ty(ty) and "&mut" in ty:
                return True
            v = st.val.get(pl[0]) if len(pl) == 1 else None
            if v and v[0] == "closure" and v[3]:
                return True
            if len(pl) == 1 and "{closure@" in ty and v is None and any(self.dom.in_domain_ty(x) for x in body["locals"]):
                return True
        return False

    def transfer_call(self, ctx, st, t, bi):
        if not t["to"]:
            return None
        kind, data = self.callee_of(ctx, st, t)
        d = t["d"]
        dl = d[0] if len(d) == 1 else None
        new_cond = None
        new_val = None
        a = t["a"]
        NE = self.dom.NE
        ALL = self.dom.ALL
        EOF_ONLY = self.dom.EOF_ONLY

        def const_int(op):
            return (op.get("k") or {}).get("int")

        def test(S, pos=0):
            """`token at lookahead pos in S` for an exactly known S: (W if true, W if false)"""
            if st.w0 is None:
                return (None, st.w1), (None, st.w1)
            if pos == 0:
                ex = frozenset(x for x in st.w0 if isinstance(x, int))
                tv = None if S <= ex else st.w0 | (ALL - S)
                fv = None if (ALL - S) <= ex else st.w0 | S
            else:
                ex = frozenset(x[1] for x in st.w0 if isinstance(x, tuple) and x[0] == pos)
                tv = None if S <= ex else st.w0 | {(pos, i) for i in ALL - S}
                fv = None if (ALL - S) <= ex else st.w0 | {(pos, i) for i in S}
                # EOF is absorbing: a later token that is not EOF means the current one is not EOF either
                if tv is not None and NE not in S:
                    tv = tv | {NE}
                if fv is not None and S == frozenset([NE]):
                    fv = fv | {NE}
            return (tv, st.w1), (fv, st.w1)

        def add0(extra):
            return (None if st.w0 is None else st.w0 | extra, st.w1)

        if kind == "prim":
            if data == "bump":
                if self.mode in ("facts", "shape"):
                    emitted = None
                    if self.mode == "shape" and st.w0 is not None and (t["f"]["k"].get("res") or "").endswith("::do_bump"):
                        kv = self.op_val(ctx, st, a[1]) if len(a) > 1 else None
                        if kv is not None and kv[0] == "kid":
                            emitted = frozenset([kv[1].rsplit("::", 1)[-1]])
                        elif kv is not None and kv[0] == "tk" and kv[1] == 0:
                            ex = frozenset(x for x in st.w0 if isinstance(x, int))
                            poss = {self.dom.post.get(i) for i in ALL - ex}
                            if None not in poss and len(poss) <= 16:
                                emitted = frozenset(poss)
                    keep = frozenset(x for x in (st.w0 or ()) if is_emit(x))
                    if st.w0 is not None:
                        nbump = (t["f"].get("k") or {}).get("ga", [])[-1:] if data == "bump" else None
                        one = (t["f"]["k"].get("res") or "").endswith("::advance") or nbump == ["1"]
                        if one:
                            # the lookahead shifts by one lexeme
                            st.w0 = frozenset([x[1] for x in st.w0 if isinstance(x, tuple) and x[0] == 1] +
                                              [(x[0] - 1, x[1]) for x in st.w0 if isinstance(x, tuple) and isinstance(x[0], int) and x[0] >= 2])
                        else:
                            st.w0 = E
                        st.w0 = st.w0 | keep
                        if emitted is not None:
                            st.w0 = st.w0 | {("E", len(st.frames), emitted)}
                    st.bumped(E)
                else:
                    if st.w0 is not None:
                        if NE in st.w0 or "NONEMPTY" in st.w0:
                            st.w0 = None
                        else:
                            st.w0 = EOF_ONLY   # nothing consumed => the cursor was, and is, at EOF
                        st.w1 = True
                    st.bumped(EOF_ONLY)
            elif data == "at_eof":
                tv, fv = test(frozenset([NE]))
                new_cond = ({"1": tv, "0": fv}, DEAD)
            elif data == "matches0":
                if const_int(a[1]) in ("1", "2", "3"):
                    S = self.dom.comparable_set(self.op_val(ctx, st, a[2]))
                    if S is not None:
                        tv, fv = test(S, int(const_int(a[1])))
                        new_cond = ({"1": tv, "0": fv}, DEAD)
                if const_int(a[1]) == "0":
                    v = self.op_val(ctx, st, a[2])
                    S = self.dom.comparable_set(v)
                    if S is not None:
                        tv, fv = test(S)
                        new_cond = ({"1": tv, "0": fv}, DEAD)
                    elif v is not None and v[0] == "kid":
                        known = st.w0 is not None and v[1] in st.w0
                        new_cond = ({"1": add0({v[1]}), "0": (None, st.w1) if known else st.base()}, DEAD)
            elif data in ("ts_union", "ts_add", "ts_new"):
                va = [self.op_val(ctx, st, o) for o in a]
                if data == "ts_union" and all(v is not None and v[0] == "ts" for v in va[:2]):
                    new_val = ("ts", va[0][1] | va[1][1])
                elif data == "ts_add" and va[0] is not None and va[0][0] == "ts":
                    S = self.dom.comparable_set(va[1]) if (va[1] is not None and va[1][0] == "kid" and va[1][1].startswith(self.dom.lexeme_kind_adt + "::")) else None
                    if S is not None:
                        bits = va[0][1]
                        for i in S:
                            bits |= 1 << i
                        new_val = ("ts", bits)
                elif data == "ts_new" and va[0] is not None and va[0][0] == "kidarr":
                    bits = 0
                    for i in va[0][1]:
                        bits |= 1 << i
                    new_val = ("ts", bits)
            elif data == "ts_from":
                v0 = self.op_val(ctx, st, a[0])
                S = self.dom.comparable_set(v0) if (v0 is not None and v0[0] == "kid" and v0[1].startswith(self.dom.lexeme_kind_adt + "::")) else None
                if S is not None:
                    bits = 0
                    for i in S:
                        bits |= 1 << i
                    new_val = ("ts", bits)
            elif data == "ts_contains":
                va = [self.op_val(ctx, st, o) for o in a[:2]]
                S = self.dom.comparable_set(va[0]) if va[0] is not None and va[0][0] == "ts" else None
                K = self.dom.comparable_set(va[1]) if va[1] is not None and va[1][0] == "kid" else None
                if S is not None and K is not None and len(K) == 1:
                    yes = next(iter(K)) in S
                    new_cond = ({"1": st.base() if yes else DEAD, "0": DEAD if yes else st.base()}, DEAD)
            elif data == "nth":
                ci = const_int(a[1])
                if ci is not None:
                    new_val = ("lex", int(ci))
            elif data == "error":
                if self.mode == "shape" and not getattr(self, "keep_error_paths", False):
                    st.w0 = None          # only error-free paths are of interest
                    st.w1 = True
            elif data == "start_node":
                if self.mode == "shape":
                    kv = self.op_val(ctx, st, a[1]) if len(a) > 1 else None
                    st.frames = st.frames + ((kv[1].rsplit("::", 1)[-1] if kv is not None and kv[0] == "kid" else None),)
            elif data in ("finish_node", "finish_remap"):
                if self.mode == "shape" and st.frames:
                    depth = len(st.frames)
                    opened = st.frames[-1]
                    st.frames = st.frames[:-1]
                    outcomes = []   # (kind name, W)
                    if data == "finish_remap":
                        l = operand_local(a[1]) if len(a) > 1 else None
                        kv = self.op_val(ctx, st, a[1]) if len(a) > 1 else None
                        if kv is not None and kv[0] == "kid":
                            outcomes = [(kv[1].rsplit("::", 1)[-1], st.base())]
                        elif l is not None and l in st.cond:
                            outcomes = [(o, st.combine(v)) for o, v in st.cond[l][0].items() if o != "*"]
                    else:
                        outcomes = [(opened, st.base())]
                    kinds = set()
                    for kname, w in outcomes:
                        if kname is None or w[0] is None:
                            continue
                        kinds.add(kname)
                        rec = frozenset(x[2] for x in w[0] if is_emit(x) and x[1] == depth)
                        self.shape[kname][(ctx, t["l"])] = rec
                    if st.w0 is not None:
                        st.w0 = frozenset(x for x in st.w0 if not (is_emit(x) and x[1] >= depth))
                        if kinds and len(kinds) <= 16:
                            st.w0 = st.w0 | {("E", depth - 1, frozenset(kinds))}
                    for l2, (d2, df2) in list(st.cond.items()):
                        def strip(v):
                            if v[0] is None:
                                return v
                            return (frozenset(x for x in v[0] if not (is_emit(x) and x[1] >= depth)), v[1])
                        st.cond[l2] = ({o: strip(v) for o, v in d2.items()}, strip(df2))
            elif data == "nth_kind":
                ci = const_int(a[1])
                if ci is not None:
                    new_val = ("tk", int(ci))
            elif data == "nop":
                pass
            elif data == "buf_is_empty":
                if st.w0 is not None:
                    # an empty buffer has no non-trivia item either
                    new_cond = ({"1": (st.w0 | EOF_ONLY, st.w1), "0": add0({"NONEMPTY"})}, DEAD)
                else:
                    new_cond = ({"1": st.base(), "0": st.base()}, DEAD)
            elif data == "nth_raw":
                ci = const_int(a[1])
                if ci is not None:
                    new_val = ("raw", int(ci))
            elif data == "nth_range":
                if const_int(a[1]) == "0":
                    new_val = ("snaprange",)
            elif data == "to_token_kind":
                v = self.op_val(ctx, st, a[0])
                if v is not None and v[0] == "tk":
                    new_val = v
            elif data == "iter_next":
                st.it = 1
            elif data in ("is_some", "is_none"):
                a0 = operand_local(a[0])
                x = None
                if a0 is not None:
                    rv_ = st.val.get(a0)
                    if rv_ and rv_[0] == "ref":
                        x = rv_[1]
                    elif a0 in st.cond:
                        x = a0
                if x is not None and x in st.cond:
                    some, none = st.lookup(x, "1"), st.lookup(x, "0")
                    new_cond = ({"1": some, "0": none}, DEAD) if data == "is_some" else ({"1": none, "0": some}, DEAD)
            elif data in ("eq", "ne"):
                va = [self.op_val(ctx, st, o) for o in a[:2]]
                body = self.P.bodies[ctx[0]]
                eqv = neqv = None
                tk = next((v for v in va if v is not None and v[0] == "tk"), None)
                kd = next((v for v in va if v is not None and v[0] == "kid"), None)
                S = self.dom.comparable_set(kd) if kd is not None else None
                if tk is not None and S is not None:
                    if tk[1] <= 3:
                        eqv, neqv = test(S, tk[1])
                raw = next((v for v in va if v is not None and v[0] == "raw"), None)
                if raw is not None and raw[1] == 0:
                    for o in a[:2]:
                        pl = o.get("m") or o.get("c")
                        k_ = o.get("k") or {}
                        ty = k_.get("ty") or (body["locals"][pl[0]] if pl else "")
                        m = re.match(r"&+\[u8; (\d+)\]", ty or "")
                        if m and int(m.group(1)) >= 1:
                            # the text of the current token equals a non-empty literal: it is not the (empty) EOF token
                            eqv, neqv = add0({NE}), st.base()
                    lit = next((v for v in va if v is not None and v[0] == "bstr"), None)
                    if lit is not None and lit[1] and st.w0 is not None:
                        known = [x[1] for x in st.w0 if isinstance(x, tuple) and x[0] == "raw0"]
                        if known:
                            eqv = add0({NE}) if lit[1] in known else (None, st.w1)
                            neqv = (None, st.w1) if lit[1] in known else st.base()
                        else:
                            eqv, neqv = add0({NE, ("raw0", lit[1])}), st.base()
                if eqv is not None:
                    new_cond = ({"1": eqv, "0": neqv}, DEAD) if data == "eq" else ({"0": eqv, "1": neqv}, DEAD)
            else:
                raise E7Error(f"unknown primitive kind {data}")
        elif kind == "ctx":
            # the callee is analysed from the facts of the not-yet-consumed world; if that world is dead it is still analysed
            # (with no facts) so that its own loops are checked and its outcomes keep later code reachable
            mine = frozenset(x for x in (st.w0 or ()) if is_emit(x))
            entry = (st.w0 - mine) if st.w0 is not None else E
            cctx = (data[0], data[1], entry)
            s = self.get_summary(cctx, ctx)
            base_depth = len(st.frames)

            def rebase(v):
                if v[0] is None or not (mine or any(is_emit(x) for x in v[0])):
                    return v
                out = set(mine)
                for x in v[0]:
                    if is_emit(x):
                        if x[1] == 0:
                            out.add(("E", base_depth, x[2]))
                    else:
                        out.add(x)
                return (frozenset(out), v[1])
            vals = {}
            for o, v in ((o, rebase(v)) for o, v in s["outs"].items()):
                # paths that consumed earlier are not constrained by the facts of the not-consumed world: for them every
                # outcome of the callee stays possible (an over-approximation that only keeps code reachable)
                if st.w0 is not None:
                    vals[o] = (v[0], v[1] or st.w1)
                else:
                    vals[o] = (None, True)
            live = [v for v in vals.values() if alive(v)]
            if not live:
                return None
            if s["bump"]:
                st.bumped(EOF_ONLY if self.mode == "progress" else E)
            nb = live[0]
            for v in live[1:]:
                nb = jv(nb, v)
            st.set_base(nb)
            if self.mode == "shape" and data[0].endswith("::split_remap_current") and "1" in vals and vals["1"][0] is not None:
                # the split closure pushes (range, kind) pairs that split_remap_current hands to the sink: kinds pushed on every
                # path of the closure are emitted whenever the split happens (result true)
                fvv = self.op_val(ctx, st, a[2]) if len(a) > 2 else None
                for kname in self.closure_must_push(fvv):
                    vals["1"] = (vals["1"][0] | {("E", len(st.frames), frozenset([kname]))}, vals["1"][1])
            if tuple(s["outs"]) != ("*",):
                new_cond = (vals, DEAD)
            new_val = s["retv"]
        elif kind in ("opaque", "ext"):
            if self.passes_domain_mut(ctx, st, t):
                if st.w0 is not None:
                    st.w0 = E
                st.w1 = True if alive(st.base()) else st.w1
                st.bumped(E)
                self.opaque[ctx].add((t["l"], data))
        if dl is not None:
            st.kill(dl)
            if new_cond is not None:
                st.cond[dl] = new_cond
            if new_val is not None:
                st.val[dl] = new_val
        elif d:
            st.kill(d[0])
        return st

    def edge_states(self, ctx, st, blk, bi):
        st = st.copy()
        for s in blk["s"]:
            self.transfer_stmt(ctx, st, s)
        t = blk["t"]
        tt = t["t"]
        if tt == "call":
            r = self.transfer_call(ctx, st, t, bi)
            if r is None:
                return []
            return [(t["to"][0], r)]
        if tt == "sw":
            l = operand_local(t["o"])
            vals = t["v"]
            tos = t["to"]
            v = st.val.get(l) if l is not None else None
            if v is not None and v[0] == "tkd":
                # match on the kind of the token at lookahead k
                NE, ALL = self.dom.NE, self.dom.ALL
                sets = []
                for x in vals:
                    nm = self.variant_name(v[2], x)
                    S = self.dom.comparable_set(("kid", f"{v[2]}::{nm}")) if nm else None
                    if S is None:
                        return [(x, st) for x in tos]
                    sets.append(S)
                ex = frozenset(x for x in (st.w0 or ()) if isinstance(x, int))
                outl = []
                listed = frozenset()
                for S, tg in zip(sets, tos[:-1]):
                    listed |= S
                    s2 = st.copy()
                    if s2.w0 is not None:
                        if v[1] == 0:
                            s2.w0 = None if S <= ex else s2.w0 | (ALL - S)
                        elif v[1] <= 3:
                            exk = frozenset(x[1] for x in st.w0 if isinstance(x, tuple) and x[0] == v[1])
                            s2.w0 = None if S <= exk else s2.w0 | {(v[1], i) for i in ALL - S} | ({NE} if NE not in S else set())
                    if alive(s2.base()):
                        outl.append((tg, s2))
                s2 = st.copy()
                if s2.w0 is not None and v[1] == 0:
                    s2.w0 = None if (ALL - listed) <= ex else s2.w0 | listed
                elif s2.w0 is not None and v[1] <= 3:
                    exk = frozenset(x[1] for x in st.w0 if isinstance(x, tuple) and x[0] == v[1])
                    s2.w0 = None if (ALL - listed) <= exk else s2.w0 | {(v[1], i) for i in listed}
                if alive(s2.base()):
                    outl.append((tos[-1], s2))
                return outl
            if l is None or l not in st.cond:
                return [(x, st) for x in tos]
            cv = st.cond[l]
            outl = []
            for x, tg in zip(vals, tos[:-1]):
                y = st.lookup(l, x)
                if not alive(y):
                    continue
                s2 = st.copy()
                s2.set_base(y)
                outl.append((tg, s2))
            others = [o for o in cv[0] if o not in vals]
            y = DEAD
            for o in others:
                y = jv(y, st.lookup(l, o))
            if t.get("oty") == "bool":
                if "1" not in cv[0] and "1" not in vals:
                    y = jv(y, st.lookup(l, "1"))
            else:
                y = jv(y, st.combine(cv[1]))
            if alive(y):
                s2 = st.copy()
                s2.set_base(y)
                outl.append((tos[-1], s2))
            return outl
        if tt in ("ret", "resume", "unreachable", "abort"):
            return []
        return [(x, st) for x in t.get("to", [])]

    def initial_state(self, ctx):
        key, env, n = ctx
        st = State(n, False, 0, 0)
        for (kind, idx), v in env or ():
            if kind == "p":
                st.val[idx] = v
        return st

    def run_body(self, ctx, start=0, init=None, restrict=None):
        key = ctx[0]
        blocks = self.P.bodies[key]["blocks"]
        ins = [None] * len(blocks)
        ins[start] = init if init is not None else self.initial_state(ctx)
        work = [start]
        edges = {}
        it = 0
        while work:
            it += 1
            if it > 50000:
                raise E7Error(f"dataflow did not converge in {key}")
            bi = work.pop()
            st = ins[bi]
            if st is None:
                continue
            for (tg, s2) in self.edge_states(ctx, st, blocks[bi], bi):
                if blocks[tg]["cl"]:
                    continue
                edges[(bi, tg)] = s2
                if restrict is not None and (tg not in restrict or tg == start):
                    continue
                old = ins[tg]
                new = join(old, s2)
                if old is None or new.key() != old.key():
                    ins[tg] = new
                    if tg not in work:
                        work.append(tg)
        return ins, edges

    def analyse(self, ctx):
        key = ctx[0]
        body = self.P.bodies[key]
        self.calls[ctx] = set()
        ins, edges = self.run_body(ctx)
        self.in_states[ctx] = ins
        outs = {o: DEAD for o in self.outcomes_of(body["locals"][0])}
        retv = "unset"
        bump = 0
        for bi, blk in enumerate(body["blocks"]):
            if blk["cl"] or blk["t"]["t"] != "ret" or ins[bi] is None:
                continue
            st = ins[bi].copy()
            for s in blk["s"]:
                self.transfer_stmt(ctx, st, s)
            bump |= st.b
            if self.mode == "shape" and body["locals"][0] == self.dom.ast_kind_adt:
                outs.pop("*", None)
                if 0 in st.cond:
                    for o in st.cond[0][0]:
                        outs[o] = jv(outs.get(o, DEAD), st.lookup(0, o))
                else:
                    outs["?"] = jv(outs.get("?", DEAD), st.base())
                continue
            for o in outs:
                v = st.base() if o == "*" else st.lookup(0, o)
                outs[o] = jv(outs[o], v)
            f = st.val.get(0)
            if f is not None and f[0] not in ("fn", "closure"):
                f = None
            if retv == "unset":
                retv = f
            elif retv != f:
                retv = None
        if retv == "unset":
            retv = None
        new = {"outs": outs, "retv": retv, "bump": bump}
        old = self.summ.get(ctx)
        changed = old is None or old.get("fresh") or old["outs"] != outs or old["retv"] != retv or old["bump"] != bump
        self.summ[ctx] = new
        return changed

    def live_contexts(self):
        """contexts reachable from the roots through the calls of the final solution (earlier iterations may have asked for
        contexts with less precise bindings that no longer occur)"""
        seen = set()
        st = list(self.calls[None])
        while st:
            c = st.pop()
            if c in seen:
                continue
            seen.add(c)
            st.extend(self.calls.get(c, ()))
        return seen

    def solve(self, roots=()):
        for r in roots:
            self.get_summary((r, (), E), None)
        n = 0
        while self.dirty:
            ctx = self.dirty.pop()
            n += 1
            if n > 400000:
                raise E7Error("summary fixpoint did not converge")
            if self.analyse(ctx):
                for dep in self.deps[ctx]:
                    if dep is not None and dep not in self.dirty:
                        self.dirty.append(dep)
        return n

    # ---------------------------------------------------------------- loops
    def loop_headers(self, key):
        blocks = self.P.bodies[key]["blocks"]
        cfg = self.cfg(key)
        color = {0: 1}
        heads = defaultdict(set)
        stack = [(0, iter(cfg.succ[0]))]
        while stack:
            v, itr = stack[-1]
            adv = False
            for w in itr:
                if blocks[w]["cl"]:
                    continue
                if color.get(w, 0) == 0:
                    color[w] = 1
                    stack.append((w, iter(cfg.succ[w])))
                    adv = True
                    break
                elif color[w] == 1:
                    heads[w].add(v)
            if not adv:
                color[v] = 2
                stack.pop()
        return heads

    def scc_of(self, key, h):
        cfg = self.cfg(key)
        fwd = cfg.reachable_from(h)
        blocks = self.P.bodies[key]["blocks"]
        rev = defaultdict(set)
        for u in range(cfg.n):
            for w in cfg.succ[u]:
                rev[w].add(u)
        back = {h}
        st = [h]
        while st:
            x = st.pop()
            for p in rev[x]:
                if p not in back and not blocks[p]["cl"]:
                    back.add(p)
                    st.append(p)
        return set(fwd) & back

    def check_loops(self, ctx):
        key = ctx[0]
        res = []
        ins = self.in_states.get(ctx)
        if ins is None or not self.relevant_or_closure(key):
            return res
        body = self.P.bodies[key]
        for h, tails in sorted(self.loop_headers(key).items()):
            if ins[h] is None:
                continue
            scc = self.scc_of(key, h)
            init = ins[h].copy()
            init.w0, init.w1, init.it, init.b = E, False, 0, 0
            init.cond = {}
            for l in [l for l, v in init.val.items() if v[0] in ("snap", "snaprange") or v[0] in CUR_KINDS]:
                del init.val[l]
            lins, ledges = self.run_body(ctx, start=h, init=init, restrict=scc)
            backs = {(u, tg): s for (u, tg), s in ledges.items() if tg == h and u in scc}
            bad = [u for (u, tg), s in backs.items() if s.w0 is not None and not s.it]
            path = self.witness_path(ctx, h, scc, ledges) if bad else None
            res.append({"fn": key, "header": h, "line": body["blocks"][h]["t"]["l"], "ok": not bad, "path": path,
                        "iter": bool(backs) and all((s.it and s.w0 is not None) for s in backs.values())})
        return res

    def relevant_or_closure(self, key):
        """loops are checked in functions of the domain and in closures nested in them"""
        k = key
        while k:
            if self.relevant(k):
                return True
            k = self.P.bodies[k].get("parent") if k in self.P.bodies else None
        return False

    def witness_path(self, ctx, h, scc, ledges):
        prev = {h: None}
        q = [h]
        while q:
            x = q.pop(0)
            for (u, tg), s in sorted(ledges.items()):
                if u != x or s.w0 is None or s.it:
                    continue
                if tg == h:
                    out = [x]
                    while prev[out[-1]] is not None:
                        out.append(prev[out[-1]])
                    out.reverse()
                    return [self.describe_block(ctx, b) for b in out]
                if tg in scc and tg not in prev:
                    prev[tg] = x
                    q.append(tg)
        return None

    def describe_block(self, ctx, bi):
        t = self.P.bodies[ctx[0]]["blocks"][bi]["t"]
        d = f"{t['l']}"
        if t["t"] == "call":
            k = t["f"].get("k") or {}
            nm = (k.get("res") or k.get("fn") or "?")
            d += f":call {nm.rsplit('::', 1)[-1]}"
        elif t["t"] == "sw":
            d += ":branch"
        return d


def fmt_ctx(ctx):
    key, env, n = ctx
    s = key
    if env:
        s += "[" + ",".join(f"{kind}{idx}={fmt_v(v)}" for (kind, idx), v in env) + "]"
    if n:
        s += "/excl" + str(len([x for x in n if isinstance(x, int)])) + "".join("+" + x.rsplit("::", 1)[-1] for x in sorted(x for x in n if isinstance(x, str)))
    return s


def fmt_v(f):
    if f is None:
        return "?"
    if f[0] == "fn":
        return f[1].rsplit("::", 1)[-1]
    if f[0] == "closure":
        inner = ",".join(fmt_v(x) for x in f[2])
        return f[1].split("::")[-2] + "::{closure}" + (f"({inner})" if inner else "")
    if f[0] == "kid":
        return f[1].rsplit("::", 1)[-1]
    if f[0] == "ts":
        return "ts%x" % f[1]
    return str(f)


def run(P, spec):
    dom = Domain(P, spec)
    A = Analysis(P, dom)
    roots = []
    for r in spec["roots"]:
        if r not in P.bodies:
            raise E7Error(f"root {r} not found")
        roots.append(r)
    A.solve(roots)
    for rounds in range(50):
        agg = {}
        for ctx in sorted(A.live_contexts(), key=lambda c: (c[0], str(c[1]), sorted(map(str, c[2])))):
            for r in A.check_loops(ctx):
                k = (r["fn"], r["header"])
                e = agg.setdefault(k, {"fn": r["fn"], "line": r["line"], "ctxs": [], "bad": [], "iter": True})
                e["ctxs"].append(fmt_ctx(ctx))
                e["iter"] = e["iter"] and r["iter"]
                if not r["ok"]:
                    e["bad"].append({"ctx": fmt_ctx(ctx), "path": r["path"]})
        # checking a loop may have asked for contexts that were never analysed (their summaries are still the optimistic
        # initial value): solve and check again until nothing new appears
        if not A.dirty:
            break
        A.solve()
    else:
        raise E7Error("loop checking keeps discovering new contexts")
    return A, agg


# ------------------------------------------------------------------------------------------------ rule G1
def loop_ordinals(agg):
    """stable names for loops: function + ordinal by source line (no line numbers in keys)"""
    by_fn = defaultdict(list)
    for (fn, h), e in agg.items():
        by_fn[fn].append((e["line"], h))
    names = {}
    for fn, lst in by_fn.items():
        for i, (line, h) in enumerate(sorted(lst)):
            names[(fn, h)] = i
    return names


def path_calls(path):
    return [p.split(":call ", 1)[1] for p in (path or []) if ":call " in p]


def check_exception_witness(P, w):
    """'closure-always-calls': every path through the closure passed at the named call site reaches a call to `must_call`"""
    if w.get("kind") != "closure-always-calls":
        return False, "unknown witness kind"
    fn = w["fn"]
    if fn not in P.bodies:
        return False, f"{fn} not found"
    clos = [k for k in P.bodies if k.startswith(fn + "::{closure") and P.bodies[k].get("parent") == fn]
    ok_any = False
    for ck in clos:
        # is this closure handed to `callee` in fn?
        handed = False
        body = P.bodies[fn]
        for blk in body["blocks"]:
            t = blk["t"]
            if t["t"] != "call" or blk["cl"]:
                continue
            k = t["f"].get("k") or {}
            if not (k.get("res") or k.get("fn") or "").endswith("::" + w["callee"]):
                continue
            for a in t["a"]:
                l = operand_local(a)
                if l is None:
                    continue
                for b2 in body["blocks"]:
                    for st in b2["s"]:
                        if st["d"] == [l] and st["rv"].get("ak") == "closure" and st["rv"].get("def") == ck:
                            handed = True
        if not handed:
            continue
        cb = P.bodies[ck]
        cfg = CFG(cb)
        targets = set()
        for bi, blk in enumerate(cb["blocks"]):
            t = blk["t"]
            if t["t"] == "call" and not blk["cl"]:
                k = t["f"].get("k") or {}
                if (k.get("res") or k.get("fn") or "").endswith("::" + w["must_call"]):
                    targets.add(bi)
        if targets and cfg.must_pass(targets):
            ok_any = True
        else:
            return False, f"{ck} does not call {w['must_call']} on every path"
    if not ok_any:
        return False, f"no closure of {fn} is handed to {w['callee']}"
    return True, "ok"


def g1_domains(tables):
    return [(name, spec) for name, spec in sorted(tables.get("e7_tables", {}).items()) if isinstance(spec, dict) and "type_marker" in spec]


def g1_covers(P, tables):
    """predicate: is this function's every loop decided by G1?  (functions of a G1 domain, except the domain's primitives,
    whose bodies G1 treats as axioms - their loops stay in the X10 census)"""
    doms = []
    for name, spec in g1_domains(tables):
        dom = Domain(P, spec)
        doms.append((Analysis(P, dom), set(dom.prims)))

    def covers(fn):
        for A, prims in doms:
            if A.relevant_or_closure(fn):
                k = fn
                while k:
                    if k in prims:
                        return False
                    k = P.bodies[k].get("parent") if k in P.bodies else None
                return True
        return False
    return covers


def rule_g1(P, tables):
    from common import norm_fn
    findings, obl, samples = [], [], []
    stats = {}
    if not g1_domains(tables):
        raise E7Error("tables/e7_tables.json: no domain")
    for dname, spec in g1_domains(tables):
        A, agg = run(P, spec)
        names = loop_ordinals(agg)
        exceptions = spec.get("loop_exceptions", [])
        used = set()
        live = A.live_contexts()
        n_iter = 0
        for (fn, h), e in sorted(agg.items()):
            nm = f"{norm_fn(fn)}#loop{names[(fn, h)]}"
            if e["iter"]:
                n_iter += 1
            bad = e["bad"]
            status = "consumes a lexeme on every trip" if not e["iter"] else "driven by a std iterator"
            ok = True
            excused = []
            for b in bad:
                calls = path_calls(b["path"])
                ex = next((x for i, x in enumerate(exceptions) if x["fn"] == norm_fn(fn) and x["calls"] == calls), None)
                if ex is not None:
                    wok, why = check_exception_witness(P, ex["witness"])
                    if wok:
                        used.add(exceptions.index(ex))
                        excused.append(ex)
                        continue
                    findings.append({"rule": "G1", "key": f"G1|witness|{norm_fn(fn)}|{'>'.join(calls)}",
                                     "msg": f"the recorded reason why {nm} makes progress no longer holds: {why}", "loc": P.site_loc(fn, e["line"]), "detail": {}})
                    ok = False
                    continue
                ok = False
                findings.append({"rule": "G1", "key": f"G1|{norm_fn(fn)}|{'>'.join(calls)}",
                                 "msg": f"{dname} loop {nm} can go round without consuming a lexeme (no bump on the path {' -> '.join(b['path'] or [])}; "
                                        f"analysed as {b['ctx'][:160]}): on an input that takes this path forever the parser never terminates",
                                 "loc": P.site_loc(fn, e["line"]), "detail": {"context": b["ctx"], "path": b["path"]}})
                break
            if excused:
                status += f" (one path excused by audited exception: {excused[0]['reason'][:80]})"
            obl.append({"rule": "G1", "inst": f"[{dname}] {nm}: {status} [{len(e['ctxs'])} contexts]", "ok": ok})
        for i, x in enumerate(exceptions):
            if i not in used:
                findings.append({"rule": "G1", "key": f"G1|stale-exception|{x['fn']}", "msg": f"audited loop exception for {x['fn']} matches nothing any more; remove it",
                                 "loc": "tables/e7_tables.json", "detail": {}})
        # unanalysed code that receives the parser
        for ctx in live:
            for (line, callee) in sorted(A.opaque.get(ctx, ())):
                findings.append({"rule": "G1", "key": f"G1|opaque|{norm_fn(ctx[0])}|{callee}",
                                 "msg": f"{ctx[0]} hands the {dname} to {callee}, which the progress analysis cannot see into", "loc": P.site_loc(ctx[0], line), "detail": {}})
        pre = "g1_" if dname == "parser" else f"g1_{dname}_"
        stats.update({pre + "loops": len(agg), pre + "iterator_loops": n_iter, pre + "contexts": len(live), pre + "functions": len({c[0] for c in live}),
                      pre + "primitives": len(A.dom.prims), pre + "token_kinds": A.dom.nk, pre + "exceptions_used": len(used)})
        for (fn, h), e in sorted(agg.items())[:4]:
            samples.append({"loop": f"{norm_fn(fn)}#loop{names[(fn, h)]}", "line": e["line"], "contexts": e["ctxs"][:3]})
    return findings, obl, samples, stats


# ------------------------------------------------------------------------------------------------ rule G2
PANIC_CALL = re.compile(r"^core::panicking::|::unwrap_failed$|::expect_failed$|^core::option::\{impl#\d+\}::(unwrap|expect)$|"
                        r"^core::result::\{impl#\d+\}::(unwrap|expect|unwrap_err|expect_err)$|^core::slice::index::|^core::str::traits::\{impl#\d+\}::index|"
                        r"^alloc::vec::\{impl#\d+\}::index|^core::array::\{impl#\d+\}::index|^core::str::slice_error|^core::ops::index::Index(Mut)?::index")


def panic_kind(P, body, blk):
    """classify a block's terminator as a potential panic: returns kind string or None"""
    t = blk["t"]
    if t["t"] == "assert":
        return "assert:" + str(t.get("ak", "?")).split("(")[0]
    if t["t"] == "call":
        k = t["f"].get("k") or {}
        nm = k.get("res") or k.get("fn") or ""
        if PANIC_CALL.search(nm) or PANIC_CALL.search(k.get("fn") or ""):
            short = nm.rsplit("::", 1)[-1]
            if nm.startswith("core::panicking::"):
                return "panic:" + short
            if short in ("unwrap", "expect", "unwrap_err", "expect_err"):
                return "unwrap"
            return "index"
    return None


def const_bounds_ok(body, blk):
    """BoundsCheck with a constant index below a constant length"""
    t = blk["t"]
    if t.get("ak") != "BoundsCheck":
        return False
    ops = t.get("o", [])
    if len(ops) != 2:
        return False
    ln = (ops[0].get("k") or {}).get("int")
    idx = (ops[1].get("k") or {}).get("int")
    if idx is None:
        l = operand_local(ops[1])
        for b2 in body["blocks"]:
            for st in b2["s"]:
                if st["d"] == [l] and st["rv"].get("r") == "use":
                    idx = (st["rv"]["o"][0].get("k") or {}).get("int")
    return ln is not None and idx is not None and int(idx) < int(ln)


def check_lookahead_const(P, spec):
    """every call of Parser::{nth, nth_range, nth_raw, matches} passes a constant lookahead below the buffer size, or forwards the
    caller's own lookahead parameter from another function of that family"""
    fam = {}
    for k, b in P.bodies.items():
        if (b.get("impl_self") or "").split("<")[0] == spec["type_marker"] and k.rsplit("::", 1)[1] in ("nth", "nth_range", "nth_raw", "matches"):
            fam[k] = b
    if len(fam) != 4:
        return False, f"lookahead family not found: {sorted(fam)}", 0
    limit = spec.get("lookahead", 4)
    n = 0
    for key, body in P.bodies.items():
        for blk in body["blocks"]:
            t = blk["t"]
            if t["t"] != "call" or blk["cl"]:
                continue
            k = t["f"].get("k") or {}
            if (k.get("res") or k.get("fn")) not in fam:
                continue
            n += 1
            a1 = t["a"][1]
            ci = (a1.get("k") or {}).get("int")
            if ci is not None:
                if int(ci) >= limit:
                    return False, f"{key} asks for lookahead {ci}", n
                continue
            l = operand_local(a1)
            ok = False
            if key in fam and l is not None:
                # a copy of the caller's own `n` parameter (local 2)
                src = l
                for b2 in body["blocks"]:
                    for st in b2["s"]:
                        if st["d"] == [l] and st["rv"].get("r") == "use":
                            src = operand_local(st["rv"]["o"][0])
                ok = src == 2
            if not ok:
                return False, f"{key} calls {k.get('res')} with a computed lookahead", n
    return True, "ok", n


def rule_g2(P, tables):
    """panic-freedom of the parser: every assertion / unwrap / index / arithmetic check in the parser modules is either infeasible
    given what is known about the token stream at that point, or listed (function, kind, count) in the audited table"""
    from common import norm_fn
    spec = tables.get("e7_tables", {}).get("parser")
    dom = Domain(P, spec)
    A = Analysis(P, dom, mode="facts")
    A.solve(spec["roots"])
    live = A.live_contexts()
    by_fn = defaultdict(list)
    for c in live:
        by_fn[c[0]].append(c)
    scope_prefix = tuple(spec.get("panic_scope", []))
    # functions in scope: analysed ones plus same-module helpers reachable from them
    roots = [k for k in by_fn if k.startswith(scope_prefix)]
    reach = set()
    stack = list(roots)
    edges = P.edges()
    while stack:
        k = stack.pop()
        if k in reach:
            continue
        reach.add(k)
        for tg in edges.get(k, ()):
            if tg in P.bodies and tg.startswith(scope_prefix) and tg not in reach:
                stack.append(tg)
    scope = sorted(k for k in set(reach) | set(roots) if k in P.bodies and k.startswith(scope_prefix) and "#promoted" not in k)
    audited = {(x["fn"], x["kind"]): x for x in spec.get("panic_sites_audited", [])}
    findings, obl, samples = [], [], []
    n_sites = n_infeasible = n_const = 0
    remaining = defaultdict(list)
    for key in scope:
        body = P.bodies[key]
        if body.get("dk") not in ("Fn", "AssocFn", "Closure"):
            continue
        ctxs = by_fn.get(key, [])
        for bi, blk in enumerate(body["blocks"]):
            if blk["cl"]:
                continue
            kind = panic_kind(P, body, blk)
            if not kind:
                continue
            if blk["t"].get("x"):   # expansion of a format/assert macro internals is still a panic site: keep
                pass
            n_sites += 1
            if kind.startswith("assert:") and const_bounds_ok(body, blk):
                n_const += 1
                continue
            if ctxs:
                feasible = False
                for c in ctxs:
                    ins = A.in_states.get(c)
                    if ins is None or ins[bi] is None or not alive(ins[bi].base()):
                        continue
                    if kind == "unwrap":
                        # receiver known to be Some/Ok on every path?
                        st = ins[bi].copy()
                        for s in blk["s"]:
                            A.transfer_stmt(c, st, s)
                        a0 = operand_local(blk["t"]["a"][0]) if blk["t"]["a"] else None
                        if a0 is not None and a0 in st.cond:
                            bad_o = "0" if "option" in (blk["t"]["f"]["k"].get("res") or "") else "1"
                            if not alive(st.lookup(a0, bad_o)):
                                continue
                    feasible = True
                    break
                if not feasible:
                    n_infeasible += 1
                    continue
            remaining[(norm_fn(key), kind)].append((key, blk["t"]["l"]))
    for (fn, kind), sites in sorted(remaining.items()):
        a = audited.get((fn, kind))
        key0, line0 = sites[0]
        if a is not None and len(sites) <= a["count"] and a.get("witness") == "lookahead-const":
            wok, why, ncalls = check_lookahead_const(P, spec)
            if not wok:
                a["_used"] = True
                obl.append({"rule": "G2", "inst": f"{fn}: {kind}: lookahead argument is a small constant at every call site", "ok": False})
                findings.append({"rule": "G2", "key": f"G2|lookahead|{fn}|{kind}", "msg": f"the lookahead assertion in {fn} can fail: {why}",
                                 "loc": P.site_loc(key0, line0), "detail": {}})
                continue
        if a is not None and len(sites) <= a["count"]:
            obl.append({"rule": "G2", "inst": f"{fn}: {len(sites)} {kind} site(s) audited: {a['reason'][:100]}", "ok": True})
            a["_used"] = True
            continue
        extra = f" ({len(sites)} sites, {a['count']} audited)" if a is not None else ""
        obl.append({"rule": "G2", "inst": f"{fn}: {kind} site(s) can be reached", "ok": False})
        findings.append({"rule": "G2", "key": f"G2|{fn}|{kind}",
                         "msg": f"{key0} has a {kind} panic site that the token-stream facts do not rule out and that is not audited{extra}: "
                                f"some input text may make the parser panic here (lines {sorted({l for _, l in sites})})",
                         "loc": P.site_loc(key0, line0), "detail": {"lines": sorted({l for _, l in sites})}})
    for (fn, kind), a in audited.items():
        if not a.get("_used"):
            findings.append({"rule": "G2", "key": f"G2|stale-audit|{fn}|{kind}", "msg": f"audited panic site entry ({fn}, {kind}) matches nothing any more; remove it",
                             "loc": "tables/e7_tables.json", "detail": {}})
    obl.append({"rule": "G2", "inst": f"{n_infeasible} assertion/unwrap sites are unreachable given the token facts at that point; {n_const} constant-index bounds checks", "ok": True})
    stats = {"g2_functions": len(scope), "g2_panic_sites": n_sites, "g2_infeasible": n_infeasible, "g2_const_bounds": n_const,
             "g2_audited_groups": sum(1 for a in audited.values() if a.get("_used")), "g2_contexts": len(live)}
    return findings, obl, samples, stats


# ------------------------------------------------------------------------------------------------ rule G3
def rule_g3(P, tables):
    """writer/reader agreement between the parser and the typed AST.  Reader side (tables/e7_typed.json, reviewed by reading
    typed.rs): accessors that unwrap the result of looking for a child of certain kinds in a node of kind K.  Writer side
    (computed): for every place where the parser finishes a node of kind K, the children it has emitted on EVERY path that
    reported no error ("must-emit", third mode of the E7 dataflow).  An accessor whose child is not must-emitted means: some
    input parses without error into a K node lacking that child, and validation/compilation - which run only on error-free
    trees - panic in the accessor."""
    from common import norm_fn
    spec = tables.get("e7_tables", {}).get("parser")
    typed = tables.get("e7_typed", {}).get("accessors", [])
    exceptions = {(x["type"], x["accessor"]): x for x in spec.get("typed_exceptions", [])}
    dom = Domain(P, spec)
    A = Analysis(P, dom, mode="shape")
    A.solve(spec["roots"])
    live = A.live_contexts()
    findings, obl = [], []
    n_checked = n_norec = 0
    used = set()
    # accessors that the parse phase itself calls (include resolution) run on trees that may contain errors: for them the child
    # must be present on ALL paths, not only the error-free ones
    early = set()
    for key, b in P.bodies.items():
        if not key.startswith("fea_rs::parse::"):
            continue
        for s_ in P.iter_sites(key):
            if s_["kind"] in ("call", "fnref"):
                for tg in s_["targets"]:
                    tb = P.bodies.get(tg)
                    if tb is not None and tg.startswith("fea_rs::token_tree::typed::") and tb.get("impl_self"):
                        early.add((tb["impl_self"].rsplit("::", 1)[-1].split("<")[0], tg.rsplit("::", 1)[-1]))
    A_all = None
    for e in typed:
        if not e.get("need"):
            continue
        recs = {frozenset(r) for (c, l), r in A.shape.get(e["node"], {}).items() if c in live}
        name = f"{e['type']}::{e['accessor']}"
        if (e["type"], e["accessor"]) in early:
            if A_all is None:
                A_all = Analysis(P, dom, mode="shape")
                A_all.keep_error_paths = True
                A_all.solve(spec["roots"])
                live_all = A_all.live_contexts()
            recs_all = {frozenset(r) for (c, l), r in A_all.shape.get(e["node"], {}).items() if c in live_all}
            need = set(e["need"])
            missing = [r for r in recs_all if not any(S <= need for S in r)]
            ex = exceptions.get((e["type"], e["accessor"] + "@parse"))
            if missing and ex is not None:
                used.add((e["type"], e["accessor"] + "@parse"))
                # witness: the named guard functions still test for the child kind before the node is handed on
                w = ex.get("witness") or {}
                wok = bool(w.get("fns"))
                for spec_fn in w.get("fns", []):
                    roots_ = [k for k, b_ in P.bodies.items() if (b_.get("impl_self") or "").split("<")[0] == spec_fn["impl_self"] and k.rsplit("::", 1)[1] == spec_fn["name"]]
                    fam = [k for k in P.bodies if any(k == r or k.startswith(r + "::{closure") for r in roots_)]
                    mention = any(st_["rv"].get("r") == "agg" and st_["rv"].get("adt") == dom.ast_kind_adt and st_["rv"].get("v") == w.get("kind")
                                  for k in fam for blk in P.bodies[k]["blocks"] for st_ in blk["s"])
                    prom = any(st_["rv"].get("r") == "agg" and st_["rv"].get("v") == w.get("kind")
                               for k in P.bodies if any(k.startswith(f + "#promoted") for f in fam) for blk in P.bodies[k]["blocks"] for st_ in blk["s"])
                    if not fam or not (mention or prom):
                        wok = False
                if wok:
                    missing = []
            ok = not missing
            obl.append({"rule": "G3", "inst": f"{name} is called while parsing (trees with errors included): every {e['node']} node contains a child of kind {'/'.join(sorted(need))[:40]} on all paths", "ok": ok})
            if not ok:
                have = sorted({"/".join(sorted(S)) for S in missing[0]})
                findings.append({"rule": "G3", "key": f"G3|{e['type']}|{e['accessor']}|parse-phase",
                                 "msg": f"typed::{name}() unwraps a child of kind {sorted(need)} and is called from the parse phase (fea_rs::parse::*, e.g. include resolution), which runs on trees "
                                        f"with errors too; the parser can finish a {e['node']} node without that child after reporting an error (children it always has: {have[:8]}): "
                                        f"such an input makes the parser itself panic", "loc": "fea-rs/src/token_tree/typed.rs", "detail": {"must_emit_all_paths": have}})
        if not recs:
            n_norec += 1
            obl.append({"rule": "G3", "inst": f"{name}: no {e['node']} node is finished on an error-free parser path (built by the rewriter or never)", "ok": True})
            continue
        n_checked += 1
        need = set(e["need"])
        missing = [r for r in recs if not any(S <= need for S in r)]
        ex = exceptions.get((e["type"], e["accessor"]))
        if missing and ex is not None:
            used.add((e["type"], e["accessor"]))
            obl.append({"rule": "G3", "inst": f"{name}: audited: {ex['reason'][:110]}", "ok": True})
            continue
        ok = not missing
        obl.append({"rule": "G3", "inst": f"{name}: every error-free {e['node']} node contains a child of kind {'/'.join(sorted(need))[:60]}", "ok": ok})
        if not ok:
            have = sorted({"/".join(sorted(S)) for S in missing[0]})
            findings.append({"rule": "G3", "key": f"G3|{e['type']}|{e['accessor']}",
                             "msg": f"typed::{name}() unwraps a child of kind {sorted(need)} of a {e['node']} node, but the parser can finish such a node without reporting any error "
                                    f"and without that child (children it always has there: {have[:8]}): validation and compilation run on error-free trees and panic in this accessor",
                             "loc": "fea-rs/src/token_tree/typed.rs", "detail": {"must_emit": have}})
    for k, x in exceptions.items():
        if k not in used:
            findings.append({"rule": "G3", "key": f"G3|stale-exception|{k[0]}|{k[1]}", "msg": f"typed accessor exception {k} is not needed any more; remove it", "loc": "tables/e7_tables.json", "detail": {}})
    # census: unwrap/expect call sites per typed node impl, so that a new accessor is noticed
    n_unwrap = 0
    for key, b in P.bodies.items():
        if not key.startswith("fea_rs::token_tree::typed::"):
            continue
        for blk in b["blocks"]:
            t = blk["t"]
            if t["t"] == "call" and not blk["cl"]:
                nm = (t["f"].get("k") or {}).get("res") or ""
                if re.match(r"core::(option|result)::\{impl#\d+\}::(unwrap|expect)$", nm):
                    n_unwrap += 1
    limit = spec.get("typed_unwrap_sites")
    ok = limit is None or n_unwrap <= limit
    obl.append({"rule": "G3", "inst": f"typed.rs has {n_unwrap} unwrap/expect sites; the reader table was reviewed for {limit}", "ok": ok})
    if not ok:
        findings.append({"rule": "G3", "key": "G3|new-unwrap", "msg": f"token_tree/typed.rs has {n_unwrap} unwrap/expect call sites, more than the {limit} the reader-side table was reviewed for: "
                         f"regenerate tables/e7_typed.json (tools/gen_typed_requirements.py), review it and update typed_unwrap_sites", "loc": "fea-rs/src/token_tree/typed.rs", "detail": {}})
    return findings, obl, [], {"g3_accessors_checked": n_checked, "g3_accessors_without_parser_node": n_norec, "g3_node_kinds_recorded": len(A.shape),
                               "g3_typed_unwrap_sites": n_unwrap, "g3_contexts": len(live)}
