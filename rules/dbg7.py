import dbg, json, e7, sys
P = dbg.load()
import os
spec=json.load(open('/verif/tables/e7_tables.json'))[os.environ.get('E7DOM','parser')]
A,agg=e7.run(P,spec)
def summ(pat):
    for ctx,s in sorted(A.summ.items(), key=lambda x: str(x[0])):
        if pat in ctx[0]: print(e7.fmt_ctx(ctx), {o:(None if v[0] is None else len(v[0]), v[1]) for o,v in s["outs"].items()})
def trace(pat):
    for ctx in A.in_states:
        if ctx[0].endswith(pat):
            print('==', e7.fmt_ctx(ctx))
            for bi,st in enumerate(A.in_states[ctx]):
                if st is None: print(' bb',bi,'unreach'); continue
                print(' bb',bi,'w0',None if st.w0 is None else len(st.w0),'w1',st.w1,'val',st.val, '|', A.describe_block(ctx,bi))
def loops():
    print('contexts',len(A.summ),'loops',len(agg))
    for k,e in sorted(agg.items()):
        print('OK ' if not e['bad'] else 'BAD', e['fn'], e['line'], 'iter' if e['iter'] else '', len(e['ctxs']))
        for b in e['bad'][:2]: print('     ', b['ctx'], b['path'])
    for ctx,s in A.opaque.items():
        print('opaque', e7.fmt_ctx(ctx), sorted(s))
if __name__=="__main__":
    for a in sys.argv[1:]:
        if a.startswith('t:'): trace(a[2:])
        elif a=='loops': loops()
        else: summ(a)
def ncpath(pat, limit=3):
    """print a not-consuming entry->return path for live contexts matching pat"""
    dom=A.dom; inv={i:n for n,i in dom.lex_idx.items()}
    def poss(w0):
        return None if w0 is None else sorted(inv[i] for i in dom.ALL - {x for x in w0 if isinstance(x,int)})
    n=0
    for ctx in sorted(A.live_contexts(), key=str):
        if not ctx[0].endswith(pat): continue
        s=A.summ[ctx]
        if all(v[0] is None for v in s['outs'].values()): continue
        body=P.bodies[ctx[0]]
        ins,edges=A.run_body(ctx)
        prev={0:None}; q=[0]; end=None
        while q and end is None:
            x=q.pop(0)
            if body['blocks'][x]['t']['t']=='ret' and ins[x] is not None and ins[x].w0 is not None: end=x; break
            for (u,tg),st in sorted(edges.items()):
                if u==x and st.w0 is not None and tg not in prev:
                    prev[tg]=x; q.append(tg)
        if end is None: continue
        out=[end]
        while prev[out[-1]] is not None: out.append(prev[out[-1]])
        out.reverse()
        print('==', e7.fmt_ctx(ctx)[:160])
        print('   entry possible:', (poss(ctx[2]) or [])[:10])
        print('   path:', [A.describe_block(ctx,b) for b in out])
        print('   at return possible:', poss(ins[end].w0)[:12])
        n+=1
        if n>=limit: break
