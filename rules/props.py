"""Property drivers: which engines/rules decide which property, evidence text."""
import os
import sys

import common
import facts
import prog

_PROG = {}


def program(config="default"):
    if config not in _PROG:
        recs, th, d = facts.load_facts(config)
        P = prog.Program(recs)
        P.tree_hash = th
        P.facts_dir = d
        _PROG[config] = P
    return _PROG[config]


def base_stats(P):
    crates = sorted({k.split("::", 1)[0] for k in P.bodies})
    return {"crates": crates, "bodies": len(P.bodies), "call_edges": sum(len(v) for v in P.edges().values()),
            "adts": len(P.adts), "impls": len(P.impls), "tree_hash": P.tree_hash}


TRUSTED = [
    "rustc 1.97-nightly type checker, trait resolution and MIR construction (same source and Cargo.lock as the stable build)",
    "cargo feature resolution",
    "/verif/driver (MIR-lite fact extractor) and /verif/rules (python)",
    "audited tables in /verif/tables (each entry has a reason and, where possible, a machine-checked witness)",
    "documented semantics of std collections, crossbeam-channel, rayon, parking_lot, indexmap, write-fonts; external crates' bodies are not analysed",
]


# ---------------------------------------------------------------------------------------------- C02
def check_c02(pid, tier, t0, replay_key):
    import e1
    P = program()
    tables = common.load_tables()
    E = e1.E1(P)
    M = e1.build_model(E)
    findings, obl, samples, stats = e1.run_rules(E, M, tables, tier)
    f7, o7 = e1.rule_r7(E, "rayon")
    findings += f7
    obl += o7
    f9, o9, s9, must = e1.rule_r9(E, M, tables)
    findings += f9
    obl += o9
    samples += s9
    f8, o8 = e1.rule_r8b(E, M)
    findings += f8
    obl += o8
    configs = ["default"]
    if tier == "thorough":
        # second build configuration: sequential scope (no rayon) changes Workload::exec's MIR
        P2 = program("norayon")
        # merge: replace fontc bodies by the norayon ones for R7
        E2 = e1.E1(P2.__class__(list(_merged_records(P, P2))))
        f72, o72 = e1.rule_r7(E2, "norayon")
        findings += f72
        obl += o72
        configs.append("norayon")
        # skip-features configuration: skippable producers are replaced by no-ops
        skippable = e1.skippable_ids(E, M)
        f92, o92, _, _ = e1.rule_r9(E, M, tables, skippable_ids=skippable)
        for f in f92:
            f["key"] += "|skip-features"
        for o in o92:
            o["inst"] = "[skip-features] " + o["inst"]
        findings += f92
        obl += o92
        stats["skippable_ids"] = sorted(e1.fmt_id(i) for i in skippable)
    if tier == "thorough":
        stats["selftest"] = run_selftest(pid)
    n_touch = sum(len(j["touches"]) for j in M.jobs.values())
    measured = {"work_impls": len(M.jobs), "slots": len(M.slots), "unknown_jobs": stats["unknown_jobs"],
                "rewrites": len(M.rewrites), "dynamic_sites": len(M.dynamic), "touches": n_touch,
                "r2_pairs": stats["nontrivial_pairs"]}
    common.check_floors(pid, measured, tables)
    st = base_stats(P)
    st.update(measured)
    st.update({k: v for k, v in stats.items()})
    st["build_configs"] = configs
    st["dynamic"] = [{"site": P.site_loc(d["fn"], d["line"]), "trigger": sorted(e1.fmt_id(t) if t else "None" for t in d["triggers"]),
                      "creates": sorted(d["types"])} for d in M.dynamic]
    st["rewrites_found"] = [{"site": P.site_loc(r["fn"], r["line"]), "target": sorted(map(e1.fmt_id, r["targets"])),
                             "trigger": sorted(e1.fmt_id(t) if t else "None" for t in r["triggers"]),
                             "access": sorted(f"{e1.fmt_id(i)}:{k}{'' if (i, k) in r['access']['uncond'] else '?'}" for i, k in r["access"]["items"])}
                            for r in M.rewrites]
    explanation = (
        "Decides C02 at job-type/variant granularity from MIR of the current tree: (R1) actual writes of every job are within its declared "
        "write access; (R2) for every slot a job reads (through the ContextItem/ContextMap API, over the call-graph reach of its exec, "
        "including backend reads of the frontend context which the runtime ACL does not check) every other job that writes that slot is "
        "ordered with it by a chain of *forced* dependencies (unconditional Variant deps, Specific deps on singletons, trigger edges of "
        "Unknown-initial jobs); (R2') own-context reads are declared (no 'Illegal read'); (R3) every job that depends on or reads what a "
        "dynamically created job produces is guarded against observing the dependency fulfilled before handle_success inserted the new jobs; "
        "(R4) Unknown read access is paired with a rewrite; (R5) writers of one slot are totally ordered; (R6) also_completes consistency; "
        "(R7) the worker closure decrements counters only after the job ran, only on success and never after sending the completion, in every "
        "build configuration analysed; (R8) main-thread reads in handle_success are ordered after every writer of the slot; (R8b) other "
        "main-thread touches happen after Workload::exec returned; (R9) a slot read with the panicking get() is written on every Ok path of "
        "its producer. Not decided: instance-level ordering inside multi-instance variants (audited exceptions with re-checked witnesses), "
        "counter arithmetic ('completed twice'), correctness of crossbeam/rayon/parking_lot.")
    rule_text = ("one obligation per rule instance (job x slot x writer, job x dynamic job x trigger, rewrite site, producer x reader, ...); "
                 "distinct = distinct instance strings; every instance enumerated from the current tree is evaluated (no sampling)")
    assumptions = [
        "scheduler semantics as implemented in Workload::can_run / is_dep_fulfilled: Variant(v) fulfilled iff the per-variant pending counter is 0, "
        "Specific(id) fulfilled iff id is not in jobs_pending; a dependency on a variant nobody inserts is trivially fulfilled",
        "enum discriminant values of AnyWorkId / WorkId equal variant indices (no explicit discriminants)",
        "calls made by external generic code back into workspace trait impls other than closures, fn values and Into->From are not followed; such impls never receive a Context",
    ]
    return common.finish(pid, tier, t0, findings, obl, samples, explanation, rule_text, st, assumptions, TRUSTED,
                         f"./check {pid} --tier {tier}", replay_key)


def run_selftest(pid):
    """thorough tier: mutation self-test of the analyser on scratch copies (never executes fontc)"""
    if os.environ.get("FONTC_VERIF_NO_EVIDENCE"):
        return []
    import selftest
    res = selftest.run_mutants(pid)
    missed = [r["name"] for r in res if r["status"] == "missed"]
    if missed:
        raise common.CannotSee(f"analyser self-test: mutants not reported: {missed}")
    return [{"name": r["name"], "status": r["status"]} for r in res]


def _merged_records(P, P2):
    """default-config program with the fontc lib/bin bodies of the second configuration"""
    for k, b in P.bodies.items():
        if not (k.startswith("fontc::") or k.startswith("fontc[bin]::")):
            yield b
    for k, b in P2.bodies.items():
        yield b
    for a in P.adts.values():
        yield a
    for i in P.impls:
        yield i
    for t in P.traits.values():
        yield t


CHECKS = {
    "C02": check_c02,
}
