"""Property drivers: which engines/rules decide which property, evidence text."""
import os
import sys

import common
import facts
import prog

_PROG = {}


def program(config="default"):
    if config not in _PROG:
        recs, th, d = facts.load_facts(config)
        P = prog.Program(recs)
        P.tree_hash = th
        P.facts_dir = d
        _PROG[config] = P
    return _PROG[config]


def base_stats(P):
    crates = sorted({k.split("::", 1)[0] for k in P.bodies})
    return {"crates": crates, "bodies": len(P.bodies), "call_edges": sum(len(v) for v in P.edges().values()),
            "adts": len(P.adts), "impls": len(P.impls), "tree_hash": P.tree_hash}


TRUSTED = [
    "rustc 1.97-nightly type checker, trait resolution and MIR construction (same source and Cargo.lock as the stable build)",
    "cargo feature resolution",
    "/verif/driver (MIR-lite fact extractor) and /verif/rules (python)",
    "audited tables in /verif/tables (each entry has a reason and, where possible, a machine-checked witness)",
    "documented semantics of std collections, crossbeam-channel, rayon, parking_lot, indexmap, write-fonts; external crates' bodies are not analysed",
]


# ---------------------------------------------------------------------------------------------- C02
def check_c02(pid, tier, t0, replay_key):
    import e1
    P = program()
    tables = common.load_tables()
    E = e1.E1(P)
    M = e1.build_model(E)
    findings, obl, samples, stats = e1.run_rules(E, M, tables, tier)
    f7, o7 = e1.rule_r7(E, "rayon")
    findings += f7
    obl += o7
    f9, o9, s9, must = e1.rule_r9(E, M, tables)
    findings += f9
    obl += o9
    samples += s9
    f8, o8 = e1.rule_r8b(E, M)
    findings += f8
    obl += o8
    f12, o12 = e1.rule_r12(E)
    findings += f12
    obl += o12
    f14, o14 = e1.rule_r14(E)
    findings += f14
    obl += o14
    import e5
    f15, o15, _s15 = e5.rule_r15(P)
    findings += f15
    obl += o15
    configs = ["default"]
    if tier == "thorough":
        # second build configuration: sequential scope (no rayon) changes Workload::exec's MIR
        P2 = program("norayon")
        # merge: replace fontc bodies by the norayon ones for R7
        E2 = e1.E1(P2.__class__(list(_merged_records(P, P2))))
        f72, o72 = e1.rule_r7(E2, "norayon")
        findings += f72
        obl += o72
        configs.append("norayon")
        # skip-features configuration: skippable producers are replaced by no-ops
        skippable = e1.skippable_ids(E, M)
        f92, o92, _, _ = e1.rule_r9(E, M, tables, skippable_ids=skippable)
        for f in f92:
            f["key"] += "|skip-features"
        for o in o92:
            o["inst"] = "[skip-features] " + o["inst"]
        findings += f92
        obl += o92
        stats["skippable_ids"] = sorted(e1.fmt_id(i) for i in skippable)
    if tier == "thorough":
        stats["selftest"] = run_selftest(pid)
    n_touch = sum(len(j["touches"]) for j in M.jobs.values())
    measured = {"work_impls": len(M.jobs), "slots": len(M.slots), "unknown_jobs": stats["unknown_jobs"],
                "rewrites": len(M.rewrites), "dynamic_sites": len(M.dynamic), "touches": n_touch,
                "r2_pairs": stats["nontrivial_pairs"]}
    common.check_floors(pid, measured, tables)
    st = base_stats(P)
    st.update(measured)
    st.update({k: v for k, v in stats.items()})
    st["build_configs"] = configs
    st["dynamic"] = [{"site": P.site_loc(d["fn"], d["line"]), "trigger": sorted(e1.fmt_id(t) if t else "None" for t in d["triggers"]),
                      "creates": sorted(d["types"])} for d in M.dynamic]
    st["rewrites_found"] = [{"site": P.site_loc(r["fn"], r["line"]), "target": sorted(map(e1.fmt_id, r["targets"])),
                             "trigger": sorted(e1.fmt_id(t) if t else "None" for t in r["triggers"]),
                             "access": sorted(f"{e1.fmt_id(i)}:{k}{'' if (i, k) in r['access']['uncond'] else '?'}" for i, k in r["access"]["items"])}
                            for r in M.rewrites]
    explanation = (
        "Decides C02 at job-type/variant granularity from MIR of the current tree: (R1) actual writes of every job are within its declared "
        "write access; (R2) for every slot a job reads (through the ContextItem/ContextMap API, over the call-graph reach of its exec, "
        "including backend reads of the frontend context which the runtime ACL does not check) every other job that writes that slot is "
        "ordered with it by a chain of *forced* dependencies (unconditional Variant deps, Specific deps on singletons, trigger edges of "
        "Unknown-initial jobs); (R2') own-context reads are declared (no 'Illegal read'); (R3) every job that depends on or reads what a "
        "dynamically created job produces is guarded against observing the dependency fulfilled before handle_success inserted the new jobs; "
        "(R4) Unknown read access is paired with a rewrite; (R5) writers of one slot are totally ordered; (R6) also_completes consistency; "
        "(R7) the worker closure decrements counters only after the job ran, only on success and never after sending the completion, in every "
        "build configuration analysed; (R8) main-thread reads in handle_success are ordered after every writer of the slot; (R8b) other "
        "main-thread touches happen after Workload::exec returned; (R9) a slot read with the panicking get() is written on every Ok path of "
        "its producer; (R12) AnyAccess::to_fe/to_be hand each context view the same access kind the job declared; (R14) an id that is "
        "completed without running its job is recorded and re-opened by handle_success when its subject comes back (a non-exported '.notdef' replaced by the "
        "synthesized one used to fail with 'GvarFragment(.notdef) is not available'; repaired). Not decided: instance-level ordering inside multi-instance variants (audited exceptions with re-checked witnesses), "
        "counter arithmetic ('completed twice'), correctness of crossbeam/rayon/parking_lot.")
    rule_text = ("one obligation per rule instance (job x slot x writer, job x dynamic job x trigger, rewrite site, producer x reader, ...); "
                 "distinct = distinct instance strings; every instance enumerated from the current tree is evaluated (no sampling)")
    assumptions = [
        "scheduler semantics as implemented in Workload::can_run / is_dep_fulfilled: Variant(v) fulfilled iff the per-variant pending counter is 0, "
        "Specific(id) fulfilled iff id is not in jobs_pending; a dependency on a variant nobody inserts is trivially fulfilled",
        "enum discriminant values of AnyWorkId / WorkId equal variant indices (no explicit discriminants)",
        "calls made by external generic code back into workspace trait impls other than closures, fn values and Into->From are not followed; such impls never receive a Context",
    ]
    return common.finish(pid, tier, t0, findings, obl, samples, explanation, rule_text, st, assumptions, TRUSTED,
                         f"./check {pid} --tier {tier}", replay_key)


def run_selftest(pid):
    """thorough tier: mutation self-test of the analyser on scratch copies (never executes fontc)"""
    if os.environ.get("FONTC_VERIF_NO_EVIDENCE"):
        return []
    import selftest
    res = selftest.run_mutants(pid)
    missed = [r["name"] for r in res if r["status"] == "missed"]
    if missed:
        raise common.CannotSee(f"analyser self-test: mutants not reported: {missed}")
    return [{"name": r["name"], "status": r["status"]} for r in res]


def _merged_records(P, P2):
    """default-config program with the fontc lib/bin bodies of the second configuration"""
    for k, b in P.bodies.items():
        if not (k.startswith("fontc::") or k.startswith("fontc[bin]::")):
            yield b
    for k, b in P2.bodies.items():
        yield b
    for a in P.adts.values():
        yield a
    for i in P.impls:
        yield i
    for t in P.traits.values():
        yield t


# ---------------------------------------------------------------------------------------------- C05
def check_c05(pid, tier, t0, replay_key):
    import e1, e3, e5
    P = program()
    tables = common.load_tables()
    E = e1.E1(P)
    M = e1.build_model(E)
    findings, obl, samples, st3 = e3.run(P, tables)
    f1, o1, s1, st1 = e5.rule_t1(P, E, M)
    findings += f1
    obl += o1
    samples += s1
    f2, o2, s2, st2 = e5.rule_t2(P, E, M)
    findings += f2
    obl += o2
    samples += s2
    st1.update(st2)
    ft3, ot3, stt3 = e5.rule_t3(P)
    findings += ft3
    obl += ot3
    st1.update(stt3)
    ft4, ot4, stt4 = e5.rule_t4(P)
    findings += ft4
    obl += ot4
    st1.update(stt4)
    ft6, ot6, stt6 = e5.rule_t6(P)
    findings += ft6
    obl += ot6
    st1.update(stt6)
    ft9, ot9, stt9 = e5.rule_t9(P)
    findings += ft9
    obl += ot9
    st1.update(stt9)
    ft11, ot11, stt11 = e5.rule_t11(P)
    findings += ft11
    obl += ot11
    st1.update(stt11)
    measured = {"functions_scanned": st3["functions_scanned"], "discard_sites": st3["discard_sites"],
                "merge_list": len(st1["merge_list"]), "has_arms": st1["has_arms"], "bytes_for_arms": st1["bytes_for_arms"],
                "count_fields_checked": st1["count_fields_checked"]}
    common.check_floors(pid, measured, tables)
    st = base_stats(P)
    st.update(st3)
    st.update(st1)
    if tier == "thorough":
        st["selftest"] = run_selftest(pid)
    explanation = (
        "Decides structural necessary conditions of C05 from MIR of the current tree: (E3)/(T1)/(T2) below, plus (T3) a table builder's is_empty verdict is taken after its last write, (T4) every output field that receives a feature-code name id is remapped (a name id in range), (T6) axis indices come from the variable axes only (all_source_axes is read by front ends alone), (T11) glyph ids and counts come from the final glyph order only (the preliminary order is touched by front ends, the glyph-order job, the scheduler and context plumbing alone), (T9) every Post::new_v2 call in the backend is dominated by an examined length check of the glyph names (write-fonts writes `len as u8` plus all bytes: a 300-byte name gave an unreadable post table with exit 0; repaired). (E3) No serialisation/compile error is dropped on the way "
        "to the font: every Result<_, E> with a tracked error type (all workspace types implementing std::error::Error, write-fonts/read-fonts errors, "
        "io::Error, ...) in every function reachable from fontc::run / generate_font / main is propagated, inspected or unwrapped; type-resolved "
        "discard idioms (Result::ok/unwrap_or*/is_ok/is_err/map_or/iter on such a Result, a Result dropped unused, a match that never reads the Err "
        "payload) are each audited in tables/e3_allow.json (function + idiom + error type + multiplicity + reason) or reported. (T1) The table-assembly "
        "tables agree: arms of font::has == arms of font::bytes_for == TABLES_TO_MERGE, every arm touches exactly the slot of its own variant, the merge "
        "list is within FontWork::read_access and contains the required tables, and every BE table slot some job writes is consumed; (T2) no count field "
        "(number_of_*, num_*, *_count) of a write-fonts table built by a backend job is taken from the FEA override tables. Together: if "
        "compilation reports success, every table some job produced is in the font. NOT decided: directory/checksum/offset correctness (write-fonts' "
        "FontBuilder), cross-table index ranges, glyph-count agreement, acyclicity/depth of the output component graph (values).")
    rule_text = "one obligation per discard-site group (function, idiom, error type) and per T1 instance (arm, required table, slot); all enumerated, none sampled"
    assumptions = ["external crates report failure through Result (their bodies are not analysed)",
                   "audited discards are benign for the reasons recorded in tables/e3_allow.json (read and confirmed on the pinned tree)"]
    return common.finish(pid, tier, t0, findings, obl, samples, explanation, rule_text, st, assumptions, TRUSTED,
                         f"./check {pid} --tier {tier}", replay_key)


# ---------------------------------------------------------------------------------------------- C14
def check_c14(pid, tier, t0, replay_key):
    import e1, e5
    P = program()
    tables = common.load_tables()
    findings, obl, samples = [], [], []
    st = base_stats(P)
    for crate, adt in (("fontir", e1.FE_ID), ("fontbe", e1.BE_ID)):
        f, o, s, s2 = e5.rule_p1_p2(P, crate, adt)
        findings += f
        obl += o
        samples += s
        st.update(s2)
    f, o, s3 = e5.rule_p3(P, tables)
    findings += f
    obl += o
    st.update(s3)
    f, o, s4 = e5.rule_p4(P)
    findings += f
    obl += o
    st.update(s4)
    f, o, s5, st5 = e5.rule_p5(P)
    findings += f
    obl += o
    samples += s5
    st.update(st5)
    f, o, st6 = e5.rule_p6(P, tables)
    findings += f
    obl += o
    st.update(st6)
    f, o, st7 = e5.rule_p7(P)
    findings += f
    obl += o
    st.update(st7)
    common.check_floors(pid, st, tables)
    if tier == "thorough":
        st["selftest"] = run_selftest(pid)
    explanation = (
        "Decides the structural clauses of C14 only: (P1) Paths::target_file of fontir and fontbe has one arm per WorkId variant and no wildcard; "
        "literal file names are pairwise distinct ignoring case; every parametric arm (glyph, anchor, kerning instance, glyf/gvar fragment, kern "
        "fragment) builds its name from its own literal namespace (directory / prefix / suffix set distinct from every other parametric arm); "
        "(P2) no format placeholder with a precision inside the paths modules (a rounded coordinate in a file name merges distinct ids - the "
        "{:.2} defect fixed in f12776d); (P3) serde skip attributes on fields of types reachable from Persistable impls equal the documented set; "
        "(P4) Persistable::read / PersistentStorage::reader are called only on the restore path of ContextItem/ContextMap::get after try_get; "
        "(P5) every metacharacter string_to_filename itself introduces ('%' escapes, '^' case suffix) is classified reserved by is_reserved_char, a "
        "necessary condition for the glyph-name encoding to be injective; (P6) hand-written Serialize/Deserialize pairs on IR/BE types are the audited ones "
        "(a derive is structural, a hand-written pair is where a Vec becomes a map); (P7) no field of a serde-derived IR/BE type has a type whose serializer "
        "is partial (PathBuf/OsString/SystemTime): Persistable::write unwraps, so such a field makes --emit-ir panic on a source the plain build compiles "
        "(FeaturesSource's paths under a non-UTF-8 directory, reproduced: KNOWN finding). "
        "NOT decided: byte-identical font with and without --emit-ir, value equality after read-back, injectivity of string_to_filename for glyph "
        "names that differ only by case or contain reserved characters, absence of collision between the literal prefix of kerning-instance files and "
        "literal file names (value level).")
    rule_text = "one obligation per match arm, literal file name, parametric namespace, format placeholder, skip attribute and restore-path call"
    assumptions = ["file names are derived only inside the two paths modules (checked: PersistentStorage impls call Paths::target_file)"]
    return common.finish(pid, tier, t0, findings, obl, samples, explanation, rule_text, st, assumptions, TRUSTED,
                         f"./check {pid} --tier {tier}", replay_key)


# ---------------------------------------------------------------------------------------------- C20
def check_c20(pid, tier, t0, replay_key):
    import e5
    P = program()
    tables = common.load_tables()
    findings, obl, samples, s = e5.rule_q1(P)
    st = base_stats(P)
    st.update(s)
    f2, o2, s2, st2 = e5.rule_l2(P)
    findings += f2
    obl += o2
    samples += s2
    st.update(st2)
    f3, o3, s3, st3 = e5.rule_l4(P, tables)
    findings += f3
    obl += o3
    st.update(st3)
    for rule in (e5.rule_l7, e5.rule_l8, e5.rule_l9, e5.rule_l10):
        f4, o4, st4 = rule(P, tables)
        findings += f4
        obl += o4
        st.update(st4)
    common.check_floors(pid, {"q1_obligations": len(obl)}, tables)
    if tier == "thorough":
        st["selftest"] = run_selftest(pid)
    explanation = (
        "Also decides two structural clauses of 'insignificant formatting does not change the output': (L7) the scalar accessors of the Glyphs plist value agree on accepting both spellings of a scalar (quoted / unquoted): numeric and boolean accessors have a String arm, string accessors would need numeric arms (as_str does not: listed known finding, reproduced); (L8) the raw Glyphs text is not rewritten by regular expressions before tokenizing (preprocess_unparsed_plist does: listed known finding, `unicode = (33, 161);` fails where `unicode = (33,161);` builds). " 
        "(L10) disk vs memory: the only glyphs-reader functions that touch the file system on the path route are the audited loaders of the file / package they were given - a sibling file consulted beside the source is invisible to the in-memory route (seeded). (L9) container equivalence, package side: inside the read_dir loop of RawFont::load_package the only conditions a branch depends on are the audited ones (extension == glyph; an empty glyphname is an error) - glyphs are identified by the glyphname inside each file, so a file-name filter drops a glyph the single .glyphs file has (seeded). "
        "Decides one clause of C20 (Q1, single pipeline): in the whole-program call graph, from each public entry point (fontc::run for the CLI, "
        "fontc::generate_font for the library) there is a function through which every path to Workload::new, Workload::exec, FeContext::new_root "
        "and BeContext::new_root passes, the two entry points share it, and those four are not called from anywhere outside it. Formulated as a "
        "call-graph dominator, so renaming or splitting the function is not an alarm. (L2) A necessary condition of container equivalence for Glyphs "
        "sources: the functions that only the .glyphspackage route executes never consult custom parameters (content is interpreted once, on the "
        "common RawFont -> Font path). (L4) A necessary condition of lone-UFO vs one-source-designspace agreement: `public.*` lib keys are "
        "looked up on the designspace lib only for the documented key (the default master's public.* keys are not merged into the designspace "
        "lib for a .designspace input). NOT decided: container equivalence in general (.glyphs file vs "
        ".glyphspackage vs in-memory text), UFO vs single-source designspace agreement, insensitivity to source formatting - those are parser "
        "semantics over input values.")
    rule_text = "one obligation per entry point, per shared-dominator test and per scheduler/context constructor (callers confined below the dominator)"
    return common.finish(pid, tier, t0, findings, obl, samples, explanation, rule_text, st, [], TRUSTED,
                         f"./check {pid} --tier {tier}", replay_key)


# ---------------------------------------------------------------------------------------------- C15
def check_c15(pid, tier, t0, replay_key):
    import e1, e3, e4
    P = program()
    tables = common.load_tables()
    reach = e3.entry_reach(P)
    findings, obl, samples = [], [], []
    st = base_stats(P)
    for fn in (lambda: e4.rule_x1(P), lambda: e4.rule_x2(P, reach), lambda: e4.rule_x3(P)):
        f, o, s2 = fn()
        findings += f
        obl += o
        st.update(s2)
    E = e1.E1(P)
    M = e1.build_model(E)
    exc = tables.get("e1_exceptions", {})
    Gs = [e1.Graph(M, E, fe, exc) for fe in e1.FE_CRATES if fe not in exc.get("excluded_front_ends", {})]
    f, o, s, s2 = e4.rule_x4(P, reach, tables, (M, Gs))
    findings += f
    obl += o
    samples += s
    st.update(s2)
    for fn in (lambda: e4.rule_x5(P, tables), lambda: e4.rule_x6(P), lambda: e4.rule_x7(P, tables), lambda: e4.rule_x8(P, tables), lambda: e4.rule_x9(P, reach)):
        f, o, s2 = fn()
        findings += f
        obl += o
        st.update(s2)
    f, o, s2 = e4.rule_x11(P, reach, tables)
    findings += f
    obl += o
    st.update(s2)
    f, o, s2 = e4.rule_x12(P)
    findings += f
    obl += o
    st.update(s2)
    import e7
    f, o, s2 = e4.rule_x10(P, reach, tables, e7.g1_covers(P, tables))
    findings += f
    obl += o
    st.update(s2)
    # a dropped error is also "a bogus font reported as built"
    f3, o3, s3, st3 = e3.run(P, tables)
    findings += f3
    obl += o3
    st.update({"e3_" + k: v for k, v in st3.items()})
    common.check_floors(pid, st, tables)
    if tier == "thorough":
        st["selftest"] = run_selftest(pid)
    explanation = (
        "Decides the crash-containment structure and the recursion/stack-argument inventory of C15 from the current tree: (X1) AnyWork::exec is only "
        "called from a closure passed to std::panic::catch_unwind, Work::exec impls are only invoked from AnyWork::exec, no Cargo profile sets "
        "panic=abort; (X2) process::exit/abort are referenced only in the binary, main's Err arm always ends in exit(non-zero), and write_font_file is "
        "only reachable after generate_font_internal returned Ok; (X3) no todo!()/unimplemented!() is reachable on the main thread outside a job; "
        "(X4) every recursive call cycle reachable from the entry points is classified (tree / type-directed / grammar-bounded / bounded / "
        "numeric-halving / input-length / input-nesting / graph) with its termination argument, and for input-nesting and graph recursion the named "
        "guard is re-checked: a depth counter compared against a constant dominates the recursive calls (plist reader), the acyclicity check runs "
        "in GlyphOrderWork before anything walks the component graph and the backend recursion is forced after it; a new or changed cycle must be "
        "classified; (X5) the audited component-graph work-list loops run only inside GlyphOrderWork after the acyclicity check; (X6) include "
        "cycles/too-deep includes are rejected before the recursive tree assembly; (X7) unsafe blocks are the audited six; (X8) after the source "
        "object is constructed the main thread (Workload::new, Source::create_*_work, handle_success) never reads or parses input files except on "
        "the restore path - input is interpreted inside jobs, under catch_unwind; (X9) threads and rayon scopes are created only in "
        "Workload::exec, so no work runs outside the scheduler's containment; (E3) no tracked error is "
        "dropped. NOT decided: progress of the FEA/plist parser loops (token-set reasoning), memory and time bounds (e.g. exponential include or "
        "class-product expansion), panics on the main thread other than todo!/unimplemented!.")
    rule_text = "one obligation per caller / exit reference / stub function / recursive SCC / graph walk / guard clause / unsafe site / discard-site group"
    assumptions = ["a panic inside a job is converted to Error::Panic by catch_unwind (std semantics); stack overflow is not a panic and is only excluded by the recursion census",
                   "recursion classes recorded in tables/e4_recursion.json were confirmed by reading the pinned tree"]
    return common.finish(pid, tier, t0, findings, obl, samples, explanation, rule_text, st, assumptions, TRUSTED,
                         f"./check {pid} --tier {tier}", replay_key)


# ---------------------------------------------------------------------------------------------- C13
def check_c13(pid, tier, t0, replay_key):
    import e3, e4, e5
    P = program()
    tables = common.load_tables()
    findings, obl, samples = [], [], []
    st = base_stats(P)
    f, o, s2 = e4.rule_x6(P)
    findings += f
    obl += o
    f, o, s, s2 = e5.rule_l1(P)
    findings += f
    obl += o
    samples += s
    st.update(s2)
    f, o, s, s2 = e5.rule_l3(P, tables)
    findings += f
    obl += o
    st.update(s2)
    f, o, s2 = e5.rule_l5(P)
    findings += f
    obl += o
    st.update(s2)
    f, o, s2 = e5.rule_l6(P)
    findings += f
    obl += o
    st.update(s2)
    import e7
    f, o, s, s2 = e7.rule_g1(P, tables)
    findings += f
    obl += o
    samples += s
    st.update(s2)
    f, o, s, s2 = e7.rule_g2(P, tables)
    findings += f
    obl += o
    st.update(s2)
    f, o, s, s2 = e7.rule_g3(P, tables)
    findings += f
    obl += o
    st.update(s2)
    f, o, s2 = e5.rule_g4(P)
    findings += f
    obl += o
    st.update(s2)
    # recursion census restricted to the FEA front end
    reach = e3.entry_reach(P)
    f, o, s, s2 = e4.rule_x4(P, reach, tables, None)
    keep = ("fea_rs::parse", "fea_rs::token_tree", "fea_rs::compile::validate")
    f = [x for x in f if any(k in x["key"] for k in keep)]
    o = [x for x in o if any(k in x["inst"] for k in keep)]
    findings += f
    obl += o
    st["fea_front_end_sccs"] = len(o)
    common.check_floors(pid, st, tables)
    if tier == "thorough":
        st["selftest"] = run_selftest(pid)
    explanation = (
        "(G4) validation does not call the typed-AST accessors that panic on a token's TEXT (`text().parse().expect(..)`; a NUMBER is `-?[0-9]+` of any length): ten such calls exist today and are KNOWN findings (reproduced: `UnicodeRange 40000;`, `\\99999`, `parameters 10 40000;` panic in validation). "
        "Decides some clauses of C13 only. (G1) Termination of the recursive-descent parser's loops: a context-sensitive dataflow over MIR "
        "(token-kind sets evaluated from the TokenSet constants, path-sensitive on the results of eat/expect/matches, combinators analysed per "
        "closure binding) shows that every trip round every loop in a function that takes the Parser consumes at least one non-EOF lexeme (or the "
        "loop is a std-iterator `for`); the lexeme stream is finite, so no loop spins. (G2) Panic-freedom of the parser modules (parser.rs, grammar/*): "
        "the same dataflow, now keeping token facts (current token and three tokens of lookahead, exact TokenSet values, raw-text equalities) on every "
        "path, shows that the failing edge of most assertions/unwraps is infeasible (`assert!(parser.eat(K))` after a dispatch on K, the "
        "`debug_assert!(recovery.contains(..))` for every recovery set that reaches it, ...); constant-index bounds checks are evaluated; every "
        "other assertion, unwrap, index or arithmetic-overflow site is listed per (function, kind, count) in an audited table with the reason it cannot "
        "fire, so a new panic site in the parser is a violation. (G3) 'Error-free parse trees are accepted or rejected by validation without "
        "panic', writer/reader agreement: third mode of the dataflow computes, for every node kind, the children the parser has emitted on every path that "
        "reported no error when it finishes such a node; 71 typed-AST accessors that unwrap a child (reader table, generated from typed.rs and reviewed) are "
        "checked against it; six are audited exceptions. This found five inputs that parse without error and panic in validation "
        "(`pos cursive <anchor..> <anchor..>;`, `pos base|ligature|mark <anchor..> mark @m;`, `lookup ;;`, `sub a from;`), all repaired. (X6) The statement's last clause: in ParseContext::generate_parse_tree, IncludeGraph::validate dominates the "
        "recursive tree assembly, its rejected edges are handed to generate_recurse which recurses only for statements not rejected, and validate "
        "bounds the include depth by MAX_INCLUDE_DEPTH and keeps a seen set - cyclic or too-deep includes are reported instead of looping. (L1) A "
        "necessary condition of losslessness: exactly one function (AstSink::token) advances the sink's source cursor, slicing by the same length it "
        "advances by; the lexer is pulled only by Parser::advance; every function that advances the parser hands the consumed lexeme(s) to "
        "AstSink::token. (L3) A necessary condition of 'diagnostics point at ranges on character boundaries inside the source': the Range handed "
        "to a diagnostic constructor in the parser is taken from token/node ranges, not computed by byte arithmetic in the reporting function "
        "(one audited site; the two `pos..pos+1` helpers that can point one byte past the end of input are listed known findings). Plus the "
        "recursion census restricted to the FEA parser/token tree (each cycle there is tree- or grammar-bounded). NOT "
        "decided - do not read this check as evidence for them: loops of the lexer and of the contextual-rule rewriter (ReparseCtx), recursion depth, panic-freedom of the lexer / token tree / validation, correctness of the audited reasons themselves (they were read, not proved), "
        "diagnostic ranges on character boundaries, the contextual-rule rewrite re-emitting every child.")
    rule_text = "one obligation per guard clause, cursor writer, lexer caller, advance caller and FEA front-end recursive cycle"
    return common.finish(pid, tier, t0, findings, obl, samples, explanation, rule_text, st, [], TRUSTED,
                         f"./check {pid} --tier {tier}", replay_key)


# ---------------------------------------------------------------------------------------------- C01 / C18
NAME_FLOW = ("fontir::ir::static_metadata::", "fontir::ir::{impl#18}", "fontbe::name::", "fontbe::fvar::", "fontbe::stat::",
             "fea_rs::compile::output::", "fea_rs::compile::tables::name::", "fea_rs::compile::tables::stat::", "fontbe::features::{impl#12}::exec",
             "fontbe::features::{impl#12}", "ufo2fontir::source::names", "glyphs2fontir::source::names", "fontir::ir::names")


def check_c01(pid, tier, t0, replay_key):
    import e1, e2
    P = program()
    tables = common.load_tables()
    findings, obl, samples, st_h, _ = e2.run_h(P, tables)
    fn_, on_, sn_, st_n = e2.rule_n(P, tables)
    findings += fn_
    obl += on_
    fn6, on6 = e2.rule_n6(P)
    findings += fn6
    obl += on6
    samples += sn_
    # the schedule half: every job reads the same values in every schedule (E1 R2/R5/R7 reused)
    E = e1.E1(P)
    M = e1.build_model(E)
    f1, o1, s1, st1 = e1.run_rules(E, M, tables, tier)
    keep = ("R2", "R2'", "R5", "R8", "R2-witness")
    f1 = [f for f in f1 if f["rule"] in keep]
    o1 = [o for o in o1 if o["rule"] in keep]
    for f in f1:
        f["key"] = "sched:" + f["key"]
    findings += f1
    obl += o1
    st = base_stats(P)
    st.update(st_h)
    st.update(st_n)
    st["schedule_pairs_checked"] = len(o1)
    common.check_floors(pid, st, tables)
    if tier == "thorough":
        okc, detail = e2.clippy_crosscheck(P)
        st["clippy_disallowed_methods_crosscheck"] = detail
        obl.append({"rule": "N1-crosscheck", "inst": "every clock/env/thread reference the driver reports is also reported by clippy::disallowed_methods (independent implementation)", "ok": okc is not False})
        if okc is False:
            findings.append({"rule": "N1-crosscheck", "key": "N1x|driver-only-sites", "msg": f"the driver reports N1 sites clippy does not see: {detail['only_driver']}", "loc": "tables/clippy/clippy.toml", "detail": detail})
        st["selftest"] = run_selftest(pid)
    explanation = (
        "Decides structural clauses of repeatable builds from the current tree. (H) Hash order never becomes data: every iteration of a std HashMap/"
        "HashSet and every call of a workspace function that returns a hash-ordered sequence, in every function reachable from the entry points "
        "(scheduler launch order and timing excluded with reasons), is followed through iterator adapters, collects, loops and (two levels of) "
        "callees; a site is AUTO-SAFE when every flow ends in an order-insensitive consumer (count/any/all/min/max/integer sum, collect/extend/insert "
        "into Hash*/BTree*/IntSet/Location, per-element mutation) or in a sequence that is totally sorted (sort/sort_unstable) in that function; "
        "otherwise it must be AUDITED in tables/e2_hash_audit.json (function + iterated type + method + multiplicity + reason, with a re-checked "
        "witness where the reason is 'sorted later' or 'keyed insert elsewhere') or it is reported. (N1) clock, environment, thread identity, "
        "random state and addresses are consulted only in the audited functions; (N2) current_timestamp consults SOURCE_DATE_EPOCH before the "
        "clock and has one caller; (N3) mutable/interior-mutable statics are the audited six; (N4) no rayon parallel iterators on the compile "
        "path. Schedule independence reuses C02's forced-order result (R2/R5/R8). NOT decided: determinism of external crates (kurbo, write-fonts "
        "packing), float evaluation order inside them, last-wins inserts into maps with colliding keys, input-dependent but deterministic orders.")
    rule_text = "one obligation per hash-iteration site group, per nondeterminism-consulting function, per static, per reader/writer pair of the schedule half"
    assumptions = ["IndexMap/IndexSet/BTreeMap/Vec preserve or define order; collect/insert into a map is order-insensitive (keys assumed not to collide with different values)",
                   "audited sites are benign for the reasons recorded (read and confirmed on the pinned tree)"]
    return common.finish(pid, tier, t0, findings, obl, samples, explanation, rule_text, st, assumptions, TRUSTED,
                         f"./check {pid} --tier {tier}", replay_key)


def check_c18(pid, tier, t0, replay_key):
    import e2
    P = program()
    tables = common.load_tables()

    def in_name_flow(fn):
        return fn.startswith(NAME_FLOW) or "name" in fn.rsplit("::", 2)[-2:][0].lower() or fn.split("::")[1:2] in (["name"], ["fvar"], ["stat"])

    findings, obl, samples, st_h, _ = e2.run_h(P, tables, scope_filter=in_name_flow, rule="H")
    st = base_stats(P)
    st.update(st_h)
    import e5
    ft4, ot4, stt4 = e5.rule_t4(P)
    findings += ft4
    obl += ot4
    st.update(stt4)
    ft5, ot5, stt5 = e5.rule_t5(P)
    findings += ft5
    obl += ot5
    st.update(stt5)
    fn5, on5, stn5 = e5.rule_n5(P)
    findings += fn5
    obl += on5
    st.update(stn5)
    ft7, ot7, stt7 = e5.rule_t7(P)
    findings += ft7
    obl += ot7
    st.update(stt7)
    ft8, ot8, stt8 = e5.rule_t8(P)
    findings += ft8
    obl += ot8
    st.update(stt8)
    ft10, ot10, stt10 = e5.rule_t10(P)
    findings += ft10
    obl += ot10
    st.update(stt10)
    ft12, ot12, stt12 = e5.rule_t12(P)
    findings += ft12
    obl += ot12
    st.update(stt12)
    st["name_flow_prefixes"] = list(NAME_FLOW)
    common.check_floors(pid, st, tables)
    if tier == "thorough":
        st["selftest"] = run_selftest(pid)
    explanation = (
        "Decides seven clauses of C18 - (T12) the allocator of font-specific name ids in StaticMetadata::new starts from the maximum over ALL source name records (the map keyed by NameKey), never from a map re-keyed by string (seeded: one id per string survives, which one depends on hash order, minted ids overwrite source records) - (T10 belongs to the T4/T5 clause: add_anon_group, whose freshness T5 proves, is the only issuer of name ids in fea-rs, because cvParameters addresses its labels as first+i). (T8) 'has a non-empty record': inside StaticMetadata::new every registration of a NamedInstance field (name, PostScript name) as a name record is preceded by an emptiness test of that field (found: stylename=\"\" gave fvar an empty record; repaired). (T7) 'ids below 256 are used only where the specification allows': fvar and STAT pick a name id by string among all ids carrying it, so every accepting path of their NameId predicates must establish id >= 256 or id in the reserved set that the allocator (StaticMetadata::new) and the fvar specification agree on (2, 17), and only the default instance may ask for a reserved id (this found subfamilyNameID=1 for a default instance named like the family; repaired). (N5) every name record derived from the source reaches the merge with the feature file's records, which replaces one only on an equal platform/encoding/language/name-id key (no dropping adapter in between). (T4) 'name ids coming from feature code are shifted past the ids already used': every output-table field that "
        "receives an id minted by fea-rs's NameBuilder (feature parameters, STAT) is one that Compilation::remap_name_ids adjusts - a forgotten field "
        "keeps naming the old id, i.e. no record or someone else's (this found FeatureParams::Size.name_entry, repaired). (T5) the function that hands out a "
        "fresh feature-code name id advances the allocator on every path (a group of empty names used to leave it untouched, so two features shared one "
        "id; repaired). (H) 'the result does not "
        "depend on anything but the source': the hash-order rule of C01 (engine E2) restricted to "
        "the name flow: name-id allocation and reuse in StaticMetadata::new / NameBuilder, the name table job (sort or BTreeMap merge of records), "
        "fvar and STAT name references, fea-rs name-id handling (compile::output, tables::name, tables::stat) and the name-id remap in "
        "FeatureCompilationWork. Each hash iteration there is auto-safe, audited with a witness, or reported (this found the find_map over "
        "StaticMetadata.names that made the default instance's subfamily-name reuse random; repaired in 57ad74d). NOT decided: referential "
        "integrity of name ids in general (that the string looked up by fvar/STAT has a record at all, empty records), the fallback chain for family/style/version strings (values).")
    rule_text = "one obligation per hash-iteration site group inside the name flow, one per output-table field that receives a minted name id, one per NameId predicate and lookup caller in the backend"
    return common.finish(pid, tier, t0, findings, obl, samples, explanation, rule_text, st, [], TRUSTED,
                         f"./check {pid} --tier {tier}", replay_key)


# ---------------------------------------------------------------------------------------------- C19
def check_c19(pid, tier, t0, replay_key):
    import e1, e6
    P = program()
    tables = common.load_tables()
    E = e1.E1(P)
    M = e1.build_model(E)
    findings, obl, samples, st6 = e6.run(P, M, tables)
    fc, oc, sc = e6.rule_cache(P, tables)
    fw, ow = e6.rule_fallback_order(P)
    findings += fw
    obl += ow
    findings += fc
    obl += oc
    st = base_stats(P)
    st.update(st6)
    st.update(sc)
    common.check_floors(pid, st, tables)
    if tier == "thorough":
        st["selftest"] = run_selftest(pid)
    explanation = (
        "Decides WHERE a value can wrap, saturate or diverge between debug and release builds in the value path - every function reachable from a "
        "job's exec that lives in fontbe, fontir or fontdrasil - and that each such place is range-bounded (audited reason), guarded, or a listed "
        "finding. Sites are named by MIR built with -C overflow-checks=on: narrowing or sign-changing integer casts (Rvalue::Cast IntToInt), "
        "float-to-int casts, calls of the saturating conversions OtRound::ot_round / F2Dot14::from_f64 / Fixed::from_f64, and arithmetic on "
        "integers narrower than 64 bits (Assert(Overflow): panics in the test profile, wraps in the shipped one). A new site - e.g. try_into + "
        "error replaced by `as u16`, a count moved into u16 arithmetic - has no table entry and is a violation. The unguarded saturating "
        "conversions of source-provided metrics, offsets, kerning/anchor values and deltas (the defect family reproduced as advance 70000 -> hmtx "
        "65535 with exit 0) are listed individually as KNOWN findings by call site; the PaintColrLayers u8 wrap found by this census was repaired "
        "(0d0e704). NOT decided: conversions inside external crates (write-fonts glyf point rounding, kurbo), that a fallback (decomposition) "
        "preserves shape, and the readers'/front ends' own parsing casts (enumerated only when they lie on the value path).")
    rule_text = "one obligation per narrowing-site group (function, kind, types); every site in the value path is enumerated from MIR, none sampled"
    assumptions = ["bounded verdicts rest on the recorded range argument (read and confirmed on the pinned tree)",
                   "write-fonts OtRound / F2Dot14::from_f64 / Fixed::from_f64 saturate (float `as` semantics)"]
    return common.finish(pid, tier, t0, findings, obl, samples, explanation, rule_text, st, assumptions, TRUSTED,
                         f"./check {pid} --tier {tier}", replay_key)


CHECKS = {
    "C19": check_c19,
    "C01": check_c01,
    "C18": check_c18,
    "C13": check_c13,
    "C15": check_c15,
    "C02": check_c02,
    "C05": check_c05,
    "C14": check_c14,
    "C20": check_c20,
}
