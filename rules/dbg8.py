import dbg, json, e7, sys, collections
P = dbg.load()
spec=json.load(open('/verif/tables/e7_tables.json'))['parser']
dom=e7.Domain(P,spec); A=e7.Analysis(P,dom,mode="shape")
A.solve(spec['roots'])
live=A.live_contexts()
print('contexts',len(live),'kinds with records',len(A.shape))
def show(k):
    recs=A.shape.get(k,{})
    distinct=collections.Counter(frozenset(r) for (c,l),r in recs.items() if c in live)
    print('==',k,len(recs),'records',len(distinct),'distinct')
    for r,n in distinct.most_common(6):
        print('   ',n, sorted(sorted(s) for s in r)[:8])
if __name__=="__main__":
    for k in sys.argv[1:]: show(k)
