"""Fact extraction (drives cargo +nightly check with the rustc_private driver) and loading.

The deciding step always works on facts extracted from /repo's *current* working
tree: facts are cached under a content hash of every source/manifest file, so an
edited tree is re-extracted and an unchanged one is reused.
"""
import fcntl
import hashlib
import json
import os
import shutil
import subprocess
import sys
import time
import tomllib

VERIF = os.path.dirname(os.path.dirname(os.path.abspath(__file__)))
REPO = os.environ.get("FONTC_REPO", "/repo")
CACHE = os.path.join(VERIF, ".cache")
DRIVER_DIR = os.path.join(VERIF, "driver")
DRIVER_BIN = os.path.join(CACHE, "driver-target", "release", "fontc-facts-driver")
RUSTFLAGS = "-Zmir-opt-level=0 -Awarnings -Coverflow-checks=on"

# crates on the compile path (crate names as rustc sees them) and the fact-file label each must produce
COMPILE_PATH = [
    "fontdrasil", "fontir", "fontbe", "fontc", "fontc_bin", "fea_rs",
    "ufo2fontir", "glyphs2fontir", "glyphs_reader", "fontra2fontir",
]
CRATE_FILTER = "fontdrasil,fontir,fontbe,fontc,fea_rs,ufo2fontir,glyphs2fontir,glyphs_reader,fontra2fontir"

CONFIGS = {
    # name -> (cargo args, expected labels)
    "default": (["--workspace"], COMPILE_PATH),
    "norayon": (["-p", "fontc", "--no-default-features", "--features", "cli"], ["fontc", "fontc_bin"]),
}


class FactsError(Exception):
    pass


def _sysroot():
    return subprocess.check_output(["rustc", "+nightly", "--print", "sysroot"], text=True).strip()


def workspace_members(repo=REPO):
    with open(os.path.join(repo, "Cargo.toml"), "rb") as f:
        top = tomllib.load(f)
    out = []
    for m in top["workspace"]["members"]:
        with open(os.path.join(repo, m, "Cargo.toml"), "rb") as f:
            t = tomllib.load(f)
        out.append((m, t["package"]["name"]))
    return out


def tree_hash(repo=REPO):
    """sha256 over every file that can influence compilation of the workspace."""
    h = hashlib.sha256()
    roots = [repo]
    skip_dirs = {".git", "target", "testdata", "test-data", "node_modules", "ttx_diff", "docs", ".github"}
    entries = []
    for root in roots:
        for dp, dns, fns in os.walk(root):
            dns[:] = sorted(d for d in dns if d not in skip_dirs)
            for fn in sorted(fns):
                p = os.path.join(dp, fn)
                if fn.endswith((".rs", ".toml", ".lock")):
                    entries.append((p, True))
                elif "/src/" in p or "/resources/" in p and "/testdata/" not in p:
                    entries.append((p, False))
    for p, content in entries:
        rel = os.path.relpath(p, repo)
        h.update(rel.encode())
        h.update(b"\0")
        try:
            if content:
                with open(p, "rb") as f:
                    h.update(f.read())
            else:
                st = os.stat(p)
                h.update(f"{st.st_size}".encode())
        except OSError:
            h.update(b"?")
        h.update(b"\0")
    # driver identity
    with open(os.path.join(DRIVER_DIR, "src", "main.rs"), "rb") as f:
        h.update(f.read())
    h.update(RUSTFLAGS.encode())
    return h.hexdigest()[:24]


def build_driver(log=sys.stderr):
    src = os.path.join(DRIVER_DIR, "src", "main.rs")
    if os.path.exists(DRIVER_BIN) and os.path.getmtime(DRIVER_BIN) >= os.path.getmtime(src):
        return
    env = dict(os.environ)
    env["CARGO_TARGET_DIR"] = os.path.join(CACHE, "driver-target")
    env["CARGO_NET_OFFLINE"] = "true"
    env.pop("RUSTFLAGS", None)
    env.pop("RUSTC_WORKSPACE_WRAPPER", None)
    print("[facts] building driver", file=log)
    r = subprocess.run(["cargo", "+nightly", "build", "--release", "--offline"], cwd=DRIVER_DIR, env=env,
                       stdout=subprocess.PIPE, stderr=subprocess.STDOUT, text=True)
    if r.returncode != 0:
        raise FactsError("driver build failed:\n" + r.stdout[-4000:])


def _extract(config, outdir, log=sys.stderr):
    cargo_args, expected = CONFIGS[config]
    target = os.path.join(CACHE, "target")
    os.makedirs(target, exist_ok=True)
    # cargo's freshness cache would skip the wrapper: drop the fingerprints of workspace members
    fp = os.path.join(target, "debug", ".fingerprint")
    if os.path.isdir(fp):
        names = {n for _, n in workspace_members()}
        for d in os.listdir(fp):
            base = d.rsplit("-", 1)[0]
            if base in names:
                shutil.rmtree(os.path.join(fp, d), ignore_errors=True)
    tmp = outdir + ".tmp"
    shutil.rmtree(tmp, ignore_errors=True)
    os.makedirs(tmp)
    env = dict(os.environ)
    env["LD_LIBRARY_PATH"] = _sysroot() + "/lib"
    env["RUSTFLAGS"] = RUSTFLAGS
    env["RUSTC_WORKSPACE_WRAPPER"] = DRIVER_BIN
    env["CARGO_TARGET_DIR"] = target
    env["CARGO_NET_OFFLINE"] = "true"
    env["FONTC_FACTS_DIR"] = tmp
    env["FONTC_FACTS_CRATES"] = CRATE_FILTER
    for k in ("CARGO_ENCODED_RUSTFLAGS", "RUSTC_WRAPPER", "RUSTDOCFLAGS"):
        env.pop(k, None)
    t0 = time.time()
    print(f"[facts] extracting config={config} (cargo +nightly check {' '.join(cargo_args)})", file=log)
    r = subprocess.run(["cargo", "+nightly", "check", "--offline"] + cargo_args, cwd=REPO, env=env,
                       stdout=subprocess.PIPE, stderr=subprocess.STDOUT, text=True)
    if r.returncode != 0:
        shutil.rmtree(tmp, ignore_errors=True)
        raise FactsError("cargo check under the driver failed (tree does not compile?):\n" + r.stdout[-6000:])
    got = {}
    for fn in os.listdir(tmp):
        label = fn.rsplit("-", 1)[0]
        got.setdefault(label, []).append(fn)
    missing = [l for l in expected if l not in got]
    if missing:
        shutil.rmtree(tmp, ignore_errors=True)
        raise FactsError(f"no fact file for {missing}; got {sorted(got)}")
    # keep exactly one file per expected label (proc-macro/build-script duplicates are not expected labels)
    for label, fns in got.items():
        if label not in expected:
            for fn in fns:
                os.remove(os.path.join(tmp, fn))
            continue
        fns.sort(key=lambda f: os.path.getmtime(os.path.join(tmp, f)))
        for fn in fns[:-1]:
            os.remove(os.path.join(tmp, fn))
        os.rename(os.path.join(tmp, fns[-1]), os.path.join(tmp, label + ".jsonl"))
    with open(os.path.join(tmp, "META.json"), "w") as f:
        json.dump({"config": config, "wall_s": round(time.time() - t0, 1), "labels": expected,
                   "rustflags": RUSTFLAGS, "cargo_args": cargo_args}, f)
    shutil.rmtree(outdir, ignore_errors=True)
    os.rename(tmp, outdir)
    print(f"[facts] extraction done in {time.time()-t0:.1f}s", file=log)


def ensure_facts(config="default", log=sys.stderr):
    """Return the directory holding facts for /repo's current tree (extracting if needed)."""
    os.makedirs(CACHE, exist_ok=True)
    lock = open(os.path.join(CACHE, "lock"), "w")
    fcntl.flock(lock, fcntl.LOCK_EX)
    try:
        build_driver(log)
        th = tree_hash()
        base = os.path.join(CACHE, "facts", config)
        out = os.path.join(base, th)
        if not os.path.exists(os.path.join(out, "META.json")):
            _extract(config, out, log)
            # bound the cache: keep the 16 most recent trees per config
            ds = sorted((d for d in os.listdir(base) if not d.endswith(".tmp")),
                        key=lambda d: os.path.getmtime(os.path.join(base, d)))
            for d in ds[:-16]:
                shutil.rmtree(os.path.join(base, d), ignore_errors=True)
        else:
            os.utime(out)
        return out, th
    finally:
        fcntl.flock(lock, fcntl.LOCK_UN)
        lock.close()


def load_facts(config="default", log=sys.stderr):
    d, th = ensure_facts(config, log)
    recs = []
    for fn in sorted(os.listdir(d)):
        if not fn.endswith(".jsonl"):
            continue
        label = fn[:-6]
        with open(os.path.join(d, fn)) as f:
            saw_end = False
            for line in f:
                r = json.loads(line)
                r["crate"] = label
                if r["k"] == "end":
                    saw_end = True
                recs.append(r)
            if not saw_end:
                raise FactsError(f"truncated fact file {fn}")
    return recs, th, d


if __name__ == "__main__":
    cfg = sys.argv[1] if len(sys.argv) > 1 else "default"
    d, th = ensure_facts(cfg)
    print(d, th)
