"""Engine E4 - crash containment, recursion census and termination guards (C15; X6 also serves C13)."""
import os
import tomllib
from collections import defaultdict

from prog import CFG, def_sites, backward_slice, operand_local
import e3
import facts

STD_CRATES = ("core", "alloc", "std", "serde", "serde_core", "serde_yaml", "serde_json", "bincode", "indexmap", "smol_str")


class E4Error(Exception):
    pass


def F(rule, key, msg, loc, detail=None):
    return {"rule": rule, "key": key, "msg": msg, "loc": loc, "detail": detail or {}}


def census_edges(P):
    """call-graph edges for the recursion census: CHA expansion is kept for workspace traits only;
    an unresolved call of a std/serde trait method (Clone::clone, Default::default, fmt, ...) on a generic
    parameter is not expanded to every workspace impl (that would tie unrelated derives into one SCC)."""
    out = {}
    for key in P.bodies:
        s = set()
        for site in P.iter_sites(key):
            if site["virt"] and site["info"] and site["info"].get("trait", "").split("::", 1)[0] in STD_CRATES:
                continue
            for tg in site["targets"]:
                s.add(tg)
        out[key] = s
    return out


def recursive_sccs(P, reach, edges):
    index, low, onstack, stack, sccs = {}, {}, set(), [], []
    counter = [0]
    nodes = sorted(n for n in reach if n in P.bodies)

    def strong(v):
        work = [(v, iter(sorted(edges.get(v, ()))))]
        index[v] = low[v] = counter[0]
        counter[0] += 1
        stack.append(v)
        onstack.add(v)
        while work:
            node, it = work[-1]
            adv = False
            for w in it:
                if w not in P.bodies or w not in reach:
                    continue
                if w not in index:
                    index[w] = low[w] = counter[0]
                    counter[0] += 1
                    stack.append(w)
                    onstack.add(w)
                    work.append((w, iter(sorted(edges.get(w, ())))))
                    adv = True
                    break
                elif w in onstack:
                    low[node] = min(low[node], index[w])
            if adv:
                continue
            work.pop()
            if work:
                p = work[-1][0]
                low[p] = min(low[p], low[node])
            if low[node] == index[node]:
                comp = []
                while True:
                    w = stack.pop()
                    onstack.discard(w)
                    comp.append(w)
                    if w == node:
                        break
                sccs.append(comp)

    for n in nodes:
        if n not in index:
            strong(n)
    return [sorted(c) for c in sccs if len(c) > 1 or c[0] in edges.get(c[0], ())]


# ---------------------------------------------------------------------------------------------- helpers
def calls_to(P, fn, pred):
    out = []
    for site in P.iter_sites(fn):
        if site["kind"] == "call" and any(pred(t) for t in site["targets"]):
            if not P.bodies[fn]["blocks"][site["bi"]]["cl"]:
                out.append(site)
    return out


def find_any_work_exec(P):
    ks = [k for k, b in P.bodies.items() if b.get("impl_self") == "fontc::work::AnyWork" and k.endswith("::exec")]
    if len(ks) != 1:
        raise E4Error(f"AnyWork::exec anchor not found: {ks}")
    return ks[0]


# ---------------------------------------------------------------------------------------------- X1 containment
def rule_x1(P):
    findings, obl = [], []
    anyexec = find_any_work_exec(P)
    rev = P.rev_edges()
    callers = sorted(c for c in rev.get(anyexec, ()) if c in P.bodies)
    if not callers:
        raise E4Error("AnyWork::exec has no caller")
    for c in callers:
        b = P.bodies[c]
        ok = False
        why = "caller is not a closure"
        if b.get("dk") == "Closure":
            parent = b.get("parent")
            pb = P.bodies.get(parent)
            why = "closure is not passed to std::panic::catch_unwind"
            if pb:
                defs = def_sites(pb)
                for site in calls_to(P, parent, lambda t: t.endswith("panic::catch_unwind") or t.endswith("::catch_unwind")):
                    l = operand_local(site["term"]["a"][0])
                    _, recs = backward_slice(pb, [l], defs)
                    for d in recs:
                        if d[0] == "stmt" and d[3]["rv"].get("ak") == "closure" and d[3]["rv"].get("def") == c:
                            ok = True
        obl.append({"rule": "X1", "inst": f"AnyWork::exec caller {c} runs under catch_unwind", "ok": ok})
        if not ok:
            findings.append(F("X1", f"X1|uncontained|{c}", f"{c} calls AnyWork::exec outside std::panic::catch_unwind ({why}): a panicking job kills the process instead of becoming Error::Panic", P.body_file_line(c)))
    # Work::exec impls are only invoked from AnyWork::exec
    from prog import WORK_EXEC
    n = 0
    for k in P.bodies:
        for site in P.iter_sites(k):
            if site["kind"] not in ("call", "fnref"):
                continue
            hit = (site["info"] and site["info"].get("fn") == WORK_EXEC) or any(P.is_work_exec_impl(t) for t in site["targets"])
            if not hit:
                continue
            n += 1
            ok = k == anyexec
            obl.append({"rule": "X1", "inst": f"Work::exec invoked in {k}", "ok": ok})
            if not ok:
                findings.append(F("X1", f"X1|direct-exec|{k}", f"{k} invokes a job's Work::exec directly, bypassing AnyWork::exec and its catch_unwind", P.site_loc(k, site["line"])))
    if n < 2:
        raise E4Error("X1: Work::exec invocation sites not found")
    # no profile disables unwinding
    tomls = [os.path.join(facts.REPO, "Cargo.toml")] + [os.path.join(facts.REPO, m, "Cargo.toml") for m, _ in facts.workspace_members(facts.REPO)]
    np = 0
    for tp in tomls:
        with open(tp, "rb") as f:
            t = tomllib.load(f)
        for pname, prof in (t.get("profile") or {}).items():
            np += 1
            ok = prof.get("panic", "unwind") != "abort"
            obl.append({"rule": "X1", "inst": f"{os.path.relpath(tp, facts.REPO)} [profile.{pname}] keeps unwinding", "ok": ok})
            if not ok:
                findings.append(F("X1", f"X1|panic-abort|{pname}", f"[profile.{pname}] sets panic = \"abort\": catch_unwind can no longer contain a panicking job", os.path.relpath(tp, facts.REPO)))
    return findings, obl, {"anywork_exec_callers": len(callers), "work_exec_sites": n, "profiles": np}


# ---------------------------------------------------------------------------------------------- X2 failure is reported
EXIT_FNS = ("std::process::exit", "std::process::abort", "core::intrinsics::abort", "std::intrinsics::abort")


def rule_x2(P, reach):
    findings, obl = [], []
    n = 0
    for k in sorted(reach):
        if k not in P.bodies:
            continue
        for site in P.iter_sites(k):
            if site["kind"] in ("call", "fnref") and any(t in EXIT_FNS for t in site["targets"]):
                n += 1
                ok = k.startswith("fontc[bin]::")
                obl.append({"rule": "X2", "inst": f"process exit/abort referenced in {k}", "ok": ok})
                if not ok:
                    findings.append(F("X2", f"X2|exit|{k}", f"{k} calls {site['targets']}: library code terminates the process instead of returning an error", P.site_loc(k, site["line"])))
    main = "fontc[bin]::main"
    runk = "fontc[bin]::run"
    if main not in P.bodies or runk not in P.bodies:
        raise E4Error("fontc[bin]::main / run not found")
    body = P.bodies[main]
    cfg = CFG(body)
    run_calls = calls_to(P, main, lambda t: t == runk)
    if len(run_calls) != 1:
        raise E4Error("main does not call run exactly once")
    dl = run_calls[0]["term"]["d"][0]
    err_entry = None
    for bi, blk in enumerate(body["blocks"]):
        t = blk["t"]
        if t["t"] == "sw":
            swl = operand_local(t["o"])
            for st in blk["s"]:
                if st["d"] == [swl] and st["rv"].get("r") == "discr" and st["rv"]["p"] == [dl]:
                    # Result: Ok=0, Err=1
                    if "1" in t["v"]:
                        err_entry = t["to"][t["v"].index("1")]
                    elif t["v"] == ["0"]:
                        err_entry = t["to"][-1]
    ok = False
    if err_entry is not None:
        exit_blocks = set()
        for site in calls_to(P, main, lambda t: t == "std::process::exit"):
            a = site["term"]["a"][0].get("k", {})
            if a.get("int") not in (None, "0"):
                exit_blocks.add(site["bi"])
        ok = bool(exit_blocks) and cfg.must_pass(exit_blocks, start=err_entry)
    obl.append({"rule": "X2", "inst": "main: every path from Err(run) ends in process::exit(non-zero)", "ok": ok})
    if not ok:
        findings.append(F("X2", "X2|err-exit", "fontc main: the Err arm of run(..) can reach a normal return (exit status 0) or exits with 0: a failed build reports success", P.body_file_line(main)))
    # no font written on failure: write_font_file is only reached after generate_font_internal returned Ok
    lr = "fontc::run"
    body = P.bodies[lr]
    cfg = CFG(body)
    g = calls_to(P, lr, lambda t: t == "fontc::generate_font_internal")
    w = calls_to(P, lr, lambda t: t == "fontc::write_font_file")
    ok = False
    if g and w:
        from e1 import error_blocks
        errs = error_blocks(body)
        gb = g[0]["bi"]
        ok = all(cfg.dominates(gb, s["bi"]) for s in w)
        # an error block reached from the generate call must not flow to the write
        for eb in errs:
            if cfg.dominates(gb, eb):
                if any(s["bi"] in cfg.reachable_from(eb) for s in w):
                    ok = False
    obl.append({"rule": "X2", "inst": "fontc::run: write_font_file only after generate_font_internal returned Ok", "ok": ok})
    if not ok:
        findings.append(F("X2", "X2|write-on-failure", "fontc::run can reach write_font_file without a successful generate_font_internal: a font file is written for a failed build", P.body_file_line(lr)))
    if n < 2:
        raise E4Error("X2: process::exit references not found")
    return findings, obl, {"exit_refs": n}


# ---------------------------------------------------------------------------------------------- X3 stubs outside jobs
STUB_MSGS = ("not yet implemented", "not implemented")


def rule_x3(P):
    findings, obl = [], []
    anyexec = find_any_work_exec(P)
    roots = [r for r in e3.ENTRY_ROOTS if r in P.bodies]

    def skip(a, b):
        return b == anyexec or P.is_work_exec_impl(b)

    main_reach = P.reach_with_parents(roots, skip)
    per_fn = defaultdict(list)
    scanned = 0
    for k in main_reach:
        b = P.bodies.get(k)
        if not b:
            continue
        scanned += 1
        for bi, blk in enumerate(b["blocks"]):
            t = blk["t"]
            if t["t"] != "call" or blk["cl"]:
                continue
            kk = t["f"].get("k")
            if not kk or not kk["fn"].startswith("core::panicking::panic"):
                continue
            for a in t["a"]:
                s = a.get("k", {}).get("str")
                if s and s.startswith(STUB_MSGS):
                    per_fn[k].append(t["l"])
    for k, lines in sorted(per_fn.items()):
        obl.append({"rule": "X3", "inst": f"todo!/unimplemented! in {k} reachable on the main thread", "ok": False})
        findings.append(F("X3", f"X3|stub|{k}", f"{k} contains todo!()/unimplemented!() and is reachable from the entry points on the main thread, outside catch_unwind (path: {' -> '.join(P.path_to(main_reach, k)[-4:])}): such an input kills the process with a panic instead of a reported error", P.site_loc(k, lines[0]), {"lines": lines}))
    obl.append({"rule": "X3", "inst": f"{scanned} main-thread functions scanned for todo!/unimplemented!", "ok": True})
    return findings, obl, {"main_thread_functions": scanned, "stub_functions": len(per_fn)}


# ---------------------------------------------------------------------------------------------- X4 recursion census
def scc_key(comp):
    return "|".join(x for x in comp if "{closure" not in x) or "|".join(comp)


def rule_x4(P, reach, tables, E1ctx=None):
    findings, obl, samples = [], [], []
    table = {e["key"]: e for e in tables.get("e4_recursion", {}).get("sccs", [])}
    edges = census_edges(P)
    sccs = recursive_sccs(P, reach, edges)
    seen = set()
    for comp in sccs:
        k = scc_key(comp)
        seen.add(k)
        e = table.get(k)
        if not e:
            obl.append({"rule": "X4", "inst": f"recursive SCC {k[:120]} is classified", "ok": False})
            findings.append(F("X4", f"X4|unclassified|{k}", f"recursive call cycle {[x for x in comp if '{closure' not in x][:6]} ({len(comp)} functions) has no termination/stack argument on record: recursion whose depth follows the input (nesting, component or include graphs) overflows the stack on hostile input", P.body_file_line(comp[0])))
            continue
        ok, why = check_guard(P, comp, e, E1ctx)
        obl.append({"rule": "X4", "inst": f"SCC {k[:100]} class={e['class']}" + (f" guard={e.get('guard')}" if e.get("guard") else ""), "ok": ok})
        if len(samples) < 5:
            samples.append({"rule": "X4", "scc": [x for x in comp if "{closure" not in x][:4], "class": e["class"], "argument": e["reason"][:160]})
        if not ok:
            findings.append(F("X4", f"X4|guard|{k}", f"recursion {k[:160]} (class {e['class']}): its recorded guard no longer holds: {why}", P.body_file_line(comp[0])))
        if e.get("depth_unbounded"):
            # the recorded argument gives termination only; the stack depth follows the input (demonstrated)
            obl.append({"rule": "X4", "inst": f"SCC {k[:100]}: recursion depth is bounded", "ok": False})
            findings.append(F("X4", f"X4|depth|{k}", f"recursion {k[:160]} terminates (class {e['class']}) but its depth follows the input: {e['depth_unbounded']}", P.body_file_line(comp[0])))
    stale = sorted(set(table) - seen)
    return findings, obl, samples, {"recursive_sccs": len(sccs), "stale_table_entries": stale}


def check_guard(P, comp, e, E1ctx):
    g = e.get("guard")
    if not g:
        return True, ""
    if g["kind"] == "depth-const":
        # in `fn`: a comparison against the named const dominates every recursive call of the SCC made from fn
        fn = g["fn"]
        if fn not in P.bodies:
            return False, f"{fn} not found"
        body = P.bodies[fn]
        cfg = CFG(body)
        cmp_blocks = []
        for bi, blk in enumerate(body["blocks"]):
            for st in blk["s"]:
                rv = st["rv"]
                if rv.get("r") == "bin" and rv.get("op") in ("Gt", "Ge", "Lt", "Le"):
                    for op in rv["o"]:
                        kk = op.get("k", {})
                        if kk.get("uneval", "").endswith("::" + g["const"]):
                            cmp_blocks.append(bi)
        if not cmp_blocks:
            return False, f"no comparison against {g['const']} in {fn}"
        rec = [s for s in P.iter_sites(fn) if s["kind"] == "call" and any(t in comp for t in s["targets"]) and not body["blocks"][s["bi"]]["cl"]]
        if not rec:
            return False, f"{fn} makes no recursive call"
        for s in rec:
            if not any(cfg.dominates(cb, s["bi"]) for cb in cmp_blocks):
                return False, f"recursive call at line {s['line']} is not dominated by the depth test"
        # the failing edge must leave the function with an Err: the comparison block's switch has a successor that is an error block
        return True, ""
    if g["kind"] == "acyclicity-guard":
        guard_fn, host = g["guard_fn"], g["host_exec"]
        if guard_fn not in P.bodies or host not in P.bodies:
            return False, f"{guard_fn} / {host} not found"
        body = P.bodies[host]
        cfg = CFG(body)
        gcalls = [s for s in P.iter_sites(host) if s["kind"] == "call" and guard_fn in s["targets"]]
        if not gcalls:
            return False, f"{host} no longer calls {guard_fn}"
        gb = gcalls[0]["bi"]
        # result must be propagated (`?`): a from_residual block reachable directly after the call
        # every other workspace call in the host that can walk the graph comes after the guard
        walkers = set(g.get("walkers", []))
        for s in P.iter_sites(host):
            if s["kind"] != "call" or body["blocks"][s["bi"]]["cl"]:
                continue
            for t in s["targets"]:
                if t in P.bodies and t != guard_fn:
                    r = P.reachable([t])
                    if walkers & r and not (cfg.dominates(gb, s["bi"]) and s["bi"] != gb):
                        return False, f"call of {t} at line {s['line']} can walk the component graph before {guard_fn} ran"
        # the recursion's job is ordered after the host job
        if E1ctx is not None and g.get("after_job"):
            M, Gs = E1ctx
            for G in Gs:
                hostk = next((k for k, j in G.jobs.items() if j["methods"]["exec"] == host), None)
                tgt = next((k for k, j in G.jobs.items() if j["self"] == g["after_job"]), None)
                if hostk is None or tgt is None or not G.before(hostk, tgt):
                    return False, f"{g['after_job']} is not forced to run after the job that checks acyclicity"
        return True, ""
    if g["kind"] == "visited-set":
        fn = g["fn"]
        if fn not in P.bodies:
            return False, f"{fn} not found"
        body = P.bodies[fn]
        cfg = CFG(body)
        ins = [s for s in P.iter_sites(fn) if s["kind"] == "call" and any(t.endswith("::insert") and ("hash" in t or "set" in t) for t in s["targets"])]
        rec = [s for s in P.iter_sites(fn) if s["kind"] in ("call", "closure") and any(t in comp for t in s["targets"]) and not body["blocks"][s["bi"]]["cl"]]
        if not ins:
            return False, f"no visited-set insert in {fn}"
        for s in rec:
            if not any(cfg.dominates(i["bi"], s["bi"]) for i in ins):
                return False, f"recursive call/closure at line {s['line']} not dominated by the visited-set insert"
        return True, ""
    return False, f"unknown guard kind {g['kind']}"


# ---------------------------------------------------------------------------------------------- X5 audited graph walks
def rule_x5(P, tables):
    findings, obl = [], []
    t = tables.get("e4_recursion", {}).get("graph_walks", {})
    host = t.get("host_exec")
    guard_fn = t.get("guard_fn")
    if not host or host not in P.bodies or guard_fn not in P.bodies:
        raise E4Error("X5: host exec / guard function anchors not found")
    roots = [r for r in e3.ENTRY_ROOTS if r in P.bodies]
    body = P.bodies[host]
    cfg = CFG(body)
    gcalls = [s for s in P.iter_sites(host) if s["kind"] == "call" and guard_fn in s["targets"]]
    for w in t.get("walks", []):
        fn = w["fn"]
        if fn not in P.bodies:
            findings.append(F("X5", f"X5|missing|{fn}", f"audited component-graph walk {fn} no longer exists under that name: re-audit the list", host))
            obl.append({"rule": "X5", "inst": f"{fn} exists", "ok": False})
            continue
        # only reachable through the host job

        def skip(a, b, host=host):
            return b == host

        r = P.reachable(roots, skip)
        ok = fn not in r
        # and, inside the host, only after the guard
        if ok and gcalls:
            gb = gcalls[0]["bi"]
            for s in P.iter_sites(host):
                if s["kind"] != "call" or body["blocks"][s["bi"]]["cl"]:
                    continue
                for tg in s["targets"]:
                    if tg in P.bodies and tg != guard_fn and fn in P.reachable([tg]) | {tg}:
                        if not (cfg.dominates(gb, s["bi"]) and s["bi"] != gb):
                            ok = False
        else:
            ok = ok and bool(gcalls)
        obl.append({"rule": "X5", "inst": f"graph walk {fn} runs only inside {host.split('::')[-3]} after {guard_fn.split('::')[-1]} ({w['argument'][:60]})", "ok": ok})
        if not ok:
            findings.append(F("X5", f"X5|unguarded|{fn}", f"component-graph walk {fn} ({w['argument']}) can run without / before the acyclicity check {guard_fn}: a cyclic component reference makes it loop or recurse without bound", P.body_file_line(fn)))
    # X5b: the guard must look at the same edges the walks follow: components of *every* source of a glyph
    acc = t.get("all_sources_accessors", [])
    partial = t.get("partial_accessors", [])
    gr = P.reachable([guard_fn])
    uses_all = [a for a in acc if a in gr]
    uses_partial = [a for a in partial if a in gr]
    ok = bool(uses_all) and not uses_partial
    obl.append({"rule": "X5", "inst": f"{guard_fn.split('::')[-1]} derives component edges from every source ({[a.split('::')[-1] for a in uses_all]}), not from the default instance only", "ok": ok})
    if not ok:
        findings.append(F("X5", f"X5|guard-coverage|{guard_fn}", f"the acyclicity check {guard_fn} no longer looks at the components of every source of a glyph (all-sources accessors reached: {uses_all}; default-instance accessors reached: {uses_partial}) while the graph walks it protects follow components of all sources: a cycle that exists only in a non-default master passes the guard and the walks loop or recurse without bound", P.body_file_line(guard_fn)))
    return findings, obl, {"graph_walks": len(t.get("walks", []))}


# ---------------------------------------------------------------------------------------------- X6 include guard
def rule_x6(P):
    findings, obl = [], []
    gp = [k for k in P.bodies if k.startswith("fea_rs::parse::context::") and k.endswith("::generate_parse_tree")]
    gr = [k for k in P.bodies if k.startswith("fea_rs::parse::context::") and k.endswith("::generate_recurse")]
    va = [k for k in P.bodies if k.startswith("fea_rs::parse::context::") and k.endswith("::validate") and "IncludeGraph" in (P.bodies[k].get("impl_self") or "")]
    if not (len(gp) == 1 and len(gr) == 1 and len(va) == 1):
        raise E4Error(f"X6 anchors not found: {gp} {gr} {va}")
    gp, gr, va = gp[0], gr[0], va[0]
    body = P.bodies[gp]
    cfg = CFG(body)
    defs = def_sites(body)
    vcalls = [s for s in P.iter_sites(gp) if s["kind"] == "call" and va in s["targets"]]
    rcalls = [s for s in P.iter_sites(gp) if s["kind"] == "call" and gr in s["targets"] and not body["blocks"][s["bi"]]["cl"]]
    ok = bool(vcalls) and bool(rcalls) and all(cfg.dominates(vcalls[0]["bi"], r["bi"]) for r in rcalls)
    obl.append({"rule": "X6", "inst": "IncludeGraph::validate dominates generate_recurse in generate_parse_tree", "ok": ok})
    if not ok:
        findings.append(F("X6", "X6|order", "generate_parse_tree assembles the include tree (generate_recurse) without first validating the include graph: a cyclic include recurses without bound", P.body_file_line(gp)))
    # the list of rejected include statements is handed to the recursive assembly
    ok = False
    if vcalls and rcalls:
        vd = vcalls[0]["term"]["d"][0]
        for r in rcalls:
            for a in r["term"]["a"]:
                l = operand_local(a)
                if l is None:
                    continue
                s, _ = backward_slice(body, [l], defs)
                if vd in s:
                    ok = True
    obl.append({"rule": "X6", "inst": "validate()'s rejected edges are passed to generate_recurse", "ok": ok})
    if not ok:
        findings.append(F("X6", "X6|skip-list", "the include errors found by validate() are not passed to generate_recurse: rejected (cyclic / too deep) include statements are still expanded", P.body_file_line(gp)))
    # validate compares a length against MAX_INCLUDE_DEPTH and keeps a seen-set
    vb = P.bodies[va]
    has_cmp = False
    for blk in vb["blocks"]:
        for st in blk["s"]:
            for op in st["rv"].get("o", []):
                if op.get("k", {}).get("uneval", "").endswith("::MAX_INCLUDE_DEPTH"):
                    has_cmp = True
    has_seen = any(s["kind"] == "call" and any(t.endswith("::insert") and "hash" in t for t in s["targets"]) for s in P.iter_sites(va))
    ok = has_cmp and has_seen
    obl.append({"rule": "X6", "inst": "validate() bounds the depth by MAX_INCLUDE_DEPTH and keeps a seen set", "ok": ok})
    if not ok:
        findings.append(F("X6", "X6|validate-shape", f"IncludeGraph::validate lost its depth bound (MAX_INCLUDE_DEPTH used: {has_cmp}) or its seen set ({has_seen})", P.body_file_line(va)))
    # the rejected edges reach generate_recurse without a lossy re-indexing: any collection built between validate()
    # and the call must still distinguish (file, statement) pairs
    lossy = []
    if vcalls and rcalls:
        vd = vcalls[0]["term"]["d"][0]
        for r in rcalls:
            for a in r["term"]["a"]:
                l = operand_local(a)
                if l is None:
                    continue
                sl, recs = backward_slice(body, [l], defs)
                if vd not in sl:
                    continue
                for d in recs:
                    if d[0] != "call":
                        continue
                    k = d[3]["f"].get("k")
                    nm = (k.get("fn") if k else "").rsplit("::", 1)[-1]
                    dty = d[3].get("dty", "")
                    if nm in ("collect", "from_iter") and ("Map<" in dty):
                        from e1 import split_generics
                        try:
                            keyty = split_generics(dty)[0]
                        except Exception:
                            keyty = "?"
                        if not keyty.startswith("("):
                            lossy.append((dty[:80], d[3]["l"]))
    ok = not lossy
    obl.append({"rule": "X6", "inst": "rejected include edges are not re-indexed into a map keyed by file only", "ok": ok})
    if not ok:
        findings.append(F("X6", "X6|lossy-skip-index", f"generate_parse_tree re-indexes validate()'s rejected edges into {lossy[0][0]} before handing them to generate_recurse: a map keyed by file keeps one rejected statement per file, so a second cyclic include in the same file is still expanded and the assembly recurses without bound", P.site_loc(gp, lossy[0][1])))
    # the cycle test inside validate(): the scan over the chain of open files (`stack.iter().any(|ancestor| ancestor == child)`)
    # must see the file whose include statement is being examined, i.e. the popped entry has been pushed back before the scan
    names = vb.get("names", {})

    def root_of(l, depth=0):
        while depth < 12:
            depth += 1
            if str(l) in names:
                return l
            ds = vdefs.get(l, ())
            if len(ds) != 1:
                return l
            d = ds[0]
            if d[0] == "stmt":
                rv = d[3]["rv"]
                if "p" in rv:
                    l = rv["p"][0]
                    continue
                ops = [operand_local(o) for o in rv.get("o", [])]
                ops = [o for o in ops if o is not None]
                if len(ops) == 1:
                    l = ops[0]
                    continue
                return l
            a0 = operand_local(d[3]["a"][0]) if d[3]["a"] else None
            if a0 is None:
                return l
            l = a0
        return l

    vdefs = def_sites(vb)
    vcfg = CFG(vb)
    vsites = [s for s in P.iter_sites(va) if s["kind"] == "call" and not vb["blocks"][s["bi"]]["cl"] and s["term"]["a"]]

    def last(s):
        return (s["targets"][0] if s["targets"] else "").rsplit("::", 1)[-1]

    pops = [s for s in vsites if last(s) == "pop" and "vec" in s["targets"][0]]
    stack_l = {root_of(operand_local(s["term"]["a"][0])) for s in pops if operand_local(s["term"]["a"][0]) is not None}
    scans = [s for s in vsites if last(s) in ("any", "all", "find", "position", "contains", "find_map", "rposition")
             and operand_local(s["term"]["a"][0]) is not None and root_of(operand_local(s["term"]["a"][0])) in stack_l]
    pushes = [s for s in vsites if last(s) == "push" and operand_local(s["term"]["a"][0]) is not None and root_of(operand_local(s["term"]["a"][0])) in stack_l]
    if not pops or not scans:
        raise E4Error(f"X6: IncludeGraph::validate has no work-list pop ({len(pops)}) or no scan over the chain of open files ({len(scans)}): the cycle test is not in a form this rule recognises")
    popped = set()
    for s in pops:
        popped |= set(s["term"]["d"][:1])
    for sc in scans:
        good = False
        for pu in pushes:
            if not (vcfg.dominates(pu["bi"], sc["bi"]) and any(vcfg.dominates(po["bi"], pu["bi"]) for po in pops)):
                continue
            vl = operand_local(pu["term"]["a"][1]) if len(pu["term"]["a"]) > 1 else None
            if vl is None:
                continue
            sl, _ = backward_slice(vb, [vl], vdefs)
            if sl & popped:
                good = True
        obl.append({"rule": "X6", "inst": "validate(): the popped file is pushed back on the chain before the ancestor scan that detects a cycle", "ok": good})
        if not good:
            findings.append(F("X6", "X6|ancestor-scan", "IncludeGraph::validate scans the chain of open files for the include target while the file that contains the include statement is "
                              "not on the chain (the popped entry is pushed back only afterwards): a file other than the root that includes itself is not reported as a cycle, "
                              "and generate_recurse follows the self-include until the stack overflows", P.site_loc(va, sc["term"]["l"])))
    # in generate_recurse the recursive call is control dependent on a test derived from the rejected-edge parameter
    rb = P.bodies[gr]
    rcfg = CFG(rb)
    rdefs = def_sites(rb)
    rec = [s for s in P.iter_sites(gr) if s["kind"] == "call" and gr in s["targets"] and not rb["blocks"][s["bi"]]["cl"]]
    skip_param = 3  # self, id, skip
    ok = bool(rec)
    dom = rcfg.dominators()
    for r in rec:
        good = False
        for b in dom.get(r["bi"], ()):
            t = rb["blocks"][b]["t"]
            if t["t"] != "sw" or b == r["bi"]:
                continue
            cl = operand_local(t["o"])
            if cl is None:
                continue
            sl, _ = backward_slice(rb, [cl], rdefs)
            if skip_param in sl:
                # the recursive call must lie on one side of that test only
                sides = [tg for tg in t["to"] if rcfg.dominates(tg, r["bi"]) and rcfg.pred[tg] == [b]]
                if sides:
                    good = True
        ok = ok and good
    obl.append({"rule": "X6", "inst": "generate_recurse recurses only under a test derived from the rejected-edge parameter", "ok": ok})
    if not ok:
        findings.append(F("X6", "X6|skip-test", "generate_recurse no longer tests the rejected include statements before recursing", P.body_file_line(gr)))
    return findings, obl, {}


# ---------------------------------------------------------------------------------------------- X7 unsafe census
def rule_x7(P, tables):
    findings, obl = [], []
    allowed = {(e["crate"], e["path"]): e for e in tables.get("e4_recursion", {}).get("unsafe_allowed", [])}
    counts = defaultdict(int)
    for u in P.unsafes:
        if u["crate"] in ("fontc_bin",):
            pass
        counts[(u["crate"], u["path"])] += 1
    for k, n in sorted(counts.items()):
        e = allowed.get(k)
        ok = bool(e) and n <= e.get("count", 1)
        obl.append({"rule": "X7", "inst": f"unsafe block(s) in {k[0]}::{k[1]} x{n} audited", "ok": ok})
        if not ok:
            findings.append(F("X7", f"X7|{k[0]}|{k[1]}", f"unaudited unsafe block in {k[0]}::{k[1]} (x{n}): memory unsafety turns malformed input into undefined behaviour instead of a reported error", f"{k[0]}::{k[1]}"))
    return findings, obl, {"unsafe_blocks": sum(counts.values())}


# ---------------------------------------------------------------------------------------------- X8 no input parsing on the main thread after source construction
import re as _re

_IO_PATTERNS = [
    _re.compile(r"^std::fs::"), _re.compile(r"^std::io::Read::read_to"),
    _re.compile(r"^norad::.*::(load|load_[a-z_]+|from_file|from_reader|from_str)$"),
    _re.compile(r"^plist::.*(from_file|from_reader|from_bytes|from_reader_xml)$"),
    _re.compile(r"^(serde_yaml|serde_json)::de::from_"), _re.compile(r"^bincode::deserialize"),
    _re.compile(r"^quick_xml::reader::"),
    _re.compile(r"^glyphs_reader::font::\{impl#\d+\}::(load|load_from_string|load_package|load_raw)$"),
    _re.compile(r"^glyphs_reader::plist::\{impl#\d+\}::parse$"),
    _re.compile(r"^fea_rs::parse::(parse_root|parse_string|parse_root_file)"), _re.compile(r"^fea_rs::parse::context::\{impl#\d+\}::parse"),
]


def is_input_io(target):
    return any(p.search(target) for p in _IO_PATTERNS)


def rule_x8(P, tables):
    """Jobs parse and interpret input under catch_unwind; the main thread may do so only while constructing the source.
    After that (Workload::new, Source::create_*_work, handle_success) it must not read or parse input files, except on the
    audited restore path."""
    findings, obl = [], []
    anyexec = find_any_work_exec(P)

    def skip(a, b):
        return b == anyexec or P.is_work_exec_impl(b)

    roots = [r for r in ("fontc::workload::{impl#0}::new", "fontc::workload::{impl#0}::handle_success", "fontc::workload::{impl#0}::exec") if r in P.bodies]
    if len(roots) != 3:
        raise E4Error("X8: scheduler anchors not found")
    par = P.reach_with_parents(roots, skip)
    allowed = {e["fn"]: e for e in tables.get("e4_recursion", {}).get("main_thread_io_allowed", [])}
    from common import norm_fn
    n = 0
    for fn in sorted(par):
        if fn not in P.bodies:
            continue
        io = sorted({t for s in P.iter_sites(fn) if s["kind"] in ("call", "fnref") for t in s["targets"] if is_input_io(t)})
        if not io:
            continue
        n += 1
        e = allowed.get(norm_fn(fn))
        if e is None and P.bodies[fn].get("trait_item") in ("fontir::orchestration::Persistable::read", "fontir::orchestration::PersistentStorage::reader"):
            e = {"reason": "restore path of ContextItem/ContextMap::get (confined by C14 rule P4)"}
        ok = e is not None
        obl.append({"rule": "X8", "inst": f"{fn} reads/parses input on the main thread ({io[0]})" + (f": allowed ({e['reason'][:60]})" if ok else ""), "ok": ok})
        if not ok:
            findings.append(F("X8", f"X8|{norm_fn(fn)}", f"{fn} reads or parses input ({io[:2]}) on the main thread after the source was constructed (path: {' -> '.join(x.split('::', 1)[-1] for x in P.path_to(par, fn)[-4:])}): a malformed file makes it panic outside catch_unwind and kills the process instead of producing a reported error; do this inside a job's exec or while constructing the source",
                              P.body_file_line(fn)))
    return findings, obl, {"main_thread_io_functions": n}


# ---------------------------------------------------------------------------------------------- X9 thread creation confined to the scheduler
_SPAWN = _re.compile(
    r"^(std::thread::(\w+::)*(spawn|scope|spawn_scoped|spawn_unchecked)$"
    r"|std::thread::\w+::\{impl#\d+\}::(spawn|spawn_scoped|spawn_unchecked)$"
    r"|rayon(_core)?::(spawn|scope|join|broadcast|in_place_scope)"
    r"|rayon_core::\w+::\{impl#\d+\}::(spawn|in_place_scope|scope|install)$"
    r"|rayon_core::\{impl#\d+\}::build$"
    r"|rayon::iter::)")


def is_spawn(t):
    return bool(_SPAWN.search(t))


def rule_x9(P, reach):
    """A panic is contained only on the threads the scheduler starts (each job body runs inside catch_unwind there).
    Work handed to any other thread or rayon scope escapes that containment, so thread creation is confined to Workload::exec."""
    findings, obl = [], []
    n = 0
    for fn in sorted(reach):
        if fn not in P.bodies:
            continue
        hits = sorted({t for s in P.iter_sites(fn) if s["kind"] in ("call", "fnref") for t in s["targets"] if is_spawn(t)})
        if not hits:
            continue
        n += 1
        root = P.bodies[fn].get("root") or fn
        ok = root in ("fontc::workload::{impl#0}::exec",) or fn.startswith("fontc::norayon::")
        obl.append({"rule": "X9", "inst": f"{fn} creates threads / parallel scopes ({hits[0]})", "ok": ok})
        if not ok:
            findings.append(F("X9", f"X9|{root}", f"{fn} starts a thread or a rayon scope/iterator ({hits[:2]}) outside Workload::exec: a panic on that thread is not converted into Error::Panic by the scheduler's catch_unwind (it aborts the scope or is lost), and its result order depends on scheduling", P.body_file_line(fn)))
    if n < 1:
        raise E4Error("X9: the scheduler's own spawn sites were not found")
    return findings, obl, {"thread_creation_sites": n}


# ------------------------------------------------------------------------------------------------ X10: loop census
SHRINK = {"pop", "pop_front", "pop_back", "pop_first", "pop_last", "remove", "swap_remove", "truncate", "drain", "split_off", "split_first",
          "split_last", "take", "retain", "recv", "clear"}
ARITH = {"AddWithOverflow", "SubWithOverflow", "Add", "Sub", "Div", "Shr"}
SHRINK_STRICT = {"pop", "pop_front", "pop_back", "pop_first", "pop_last", "swap_remove", "split_first", "split_last", "recv"}
GROW = {"push", "push_back", "push_front", "insert", "extend", "append", "entry", "extend_from_slice", "push_str", "resize"}


def _loops(P, fn):
    """natural loops of a body: list of (header block, header line, scc block set)"""
    from collections import defaultdict
    b = P.bodies[fn]
    blocks = b["blocks"]
    cfg = CFG(b)
    color = {0: 1}
    heads = defaultdict(set)   # header -> tails of its back edges
    stack = [(0, iter(cfg.succ[0]))]
    while stack:
        v, itr = stack[-1]
        adv = False
        for w in itr:
            if blocks[w]["cl"]:
                continue
            if color.get(w, 0) == 0:
                color[w] = 1
                stack.append((w, iter(cfg.succ[w])))
                adv = True
                break
            elif color[w] == 1:
                heads[w].add(v)
        if not adv:
            color[v] = 2
            stack.pop()
    rev = defaultdict(set)
    for u in range(cfg.n):
        for w in cfg.succ[u]:
            rev[w].add(u)
    out = []
    for h in sorted(heads):
        # natural loop: the header plus everything that reaches a back-edge tail without passing through the header
        # (an inner loop therefore does not contain the blocks of the loop around it)
        body = {h}
        st = [t for t in heads[h]]
        while st:
            x = st.pop()
            if x in body:
                continue
            body.add(x)
            for p in rev[x]:
                if p not in body and not blocks[p]["cl"]:
                    st.append(p)
        out.append((h, blocks[h]["t"]["l"], body))
    return out


def loop_features(P, fn, scc):
    b = P.bodies[fn]
    calls, arith = [], False
    for x in sorted(scc):
        blk = b["blocks"][x]
        for st in blk["s"]:
            if st["rv"].get("r") == "bin" and st["rv"].get("op") in ARITH:
                arith = True
        t = blk["t"]
        if t["t"] == "call":
            k = t["f"].get("k") or {}
            calls.append(k.get("res") or k.get("fn") or "?")
    return calls, arith


def rule_x10(P, reach, tables, g1_covers):
    """Census of loops that are not driven by a std iterator, over everything reachable from the compiler's entry points outside the
    feature-file parser (those loops are *proved* to make progress by rule G1).  Each such loop must be listed in the audited table with
    the reason it terminates; the recorded class is re-checked structurally (counter: still has index arithmetic; shrink: still calls
    the shrinking method; cursor: still calls the advancing API; plist-derive: generated FromPlist::parse).  A loop that is not
    listed - e.g. a new `while let Some(next) = map.get(cur)` that follows references in the input - is a violation."""
    from common import norm_fn
    table = {(e["fn"], e["n"]): e for e in tables.get("e4_recursion", {}).get("loops", [])}
    findings, obl = [], []
    n_all = n_iter = n_auto = n_auto_shrink = 0
    seen = set()
    ordinals = {}
    for fn in sorted(reach):
        b = P.bodies.get(fn)
        if not b or fn.startswith(("fontc::timing", "fontc[bin]")) or "#promoted" in fn or b.get("dk") not in ("Fn", "AssocFn", "Closure"):
            continue
        if g1_covers(fn):
            continue
        for h, line, scc in sorted(_loops(P, fn), key=lambda x: x[1]):
            calls, arith = loop_features(P, fn, scc)
            n_all += 1
            if any(c.endswith(("::next", "::next_back")) for c in calls):
                n_iter += 1
                continue
            short = [c.rsplit("::", 1)[-1] for c in calls]
            nf = norm_fn(fn)
            key = (nf, ordinals.get(nf, 0))
            ordinals[nf] = key[1] + 1
            seen.add(key)
            # generated plist readers: `loop { if eat('}') {break}; key = parse()?; ... }` over the plist tokenizer
            if b.get("trait_item") == "glyphs_reader::plist::FromPlist::parse" and any(c.startswith("glyphs_reader::plist::") for c in calls):
                n_auto += 1
                continue
            e = table.get(key)
            if e is None and (set(short) & SHRINK_STRICT) and not (set(short) & GROW):
                # a loop that takes elements out of a collection and never puts any in ends when the collection is empty
                n_auto_shrink += 1
                continue
            if e is None:
                obl.append({"rule": "X10", "inst": f"{nf}#loop{key[1]} has a recorded termination argument", "ok": False})
                findings.append(F("X10", f"X10|{nf}|loop{key[1]}",
                                  f"{fn} has a loop that is not driven by an iterator and has no recorded termination argument (calls in the loop: {short[:8]}): "
                                  f"if it follows references or state taken from the input (a chain of ids, a work list that can grow) a crafted source makes the compiler hang",
                                  P.site_loc(fn, line)))
                continue
            cls = e["class"]
            ok, why = True, ""
            if cls == "counter" and not arith:
                ok, why = False, "no index arithmetic left in the loop"
            elif cls == "shrink" and not (set(short) & SHRINK):
                ok, why = False, "no shrinking call left in the loop"
            elif cls == "cursor" and not (set(short) & set(e.get("api", []))):
                ok, why = False, f"none of the advancing calls {e.get('api')} left in the loop"
            obl.append({"rule": "X10", "inst": f"{nf}#loop{key[1]} [{cls}] {e['reason'][:90]}", "ok": ok})
            if not ok:
                findings.append(F("X10", f"X10|{nf}|loop{key[1]}|{cls}", f"the recorded termination argument of a loop in {fn} ({cls}: {e['reason']}) no longer matches the code: {why}",
                                  P.site_loc(fn, line)))
    for key, e in table.items():
        if key not in seen:
            findings.append(F("X10", f"X10|stale|{key[0]}|loop{key[1]}", f"audited loop entry {key} matches nothing any more; remove it", "tables/e4_recursion.json"))
    obl.append({"rule": "X10", "inst": f"{n_auto} generated FromPlist::parse loops advance the plist tokenizer or return its error", "ok": True})
    return findings, obl, {"loops_total": n_all, "loops_iterator_driven": n_iter, "loops_plist_derive": n_auto, "loops_shrink_only": n_auto_shrink, "loops_audited": len(seen) - n_auto - n_auto_shrink}


# ------------------------------------------------------------------------------------------------ X11: input-sized loops/allocations
WIDE = ("u32", "u64", "usize", "u128", "i32", "i64", "isize", "i128")
import re
_PARSE = re.compile(r"^core::str::\{impl#\d+\}::parse$|^core::num::\{impl#\d+\}::from_str_radix$|^core::str::traits::FromStr::from_str$")
_ALLOC_SINKS = re.compile(r"::with_capacity$|^alloc::vec::from_elem$|::resize$|::reserve$|::reserve_exact$|^core::iter::sources::repeat_n::repeat_n$|::repeat$")


def _wide_parse(t):
    k = t["f"].get("k") or {}
    nm = k.get("res") or k.get("fn") or ""
    if not _PARSE.match(k.get("fn") or "") and not _PARSE.match(nm):
        return None
    dty = t.get("dty", "")
    m = re.match(r"std::result::Result<(\w+),", dty)
    if m and m.group(1) in WIDE:
        return m.group(1)
    return None


def _taint_body(P, key, seeds):
    """forward, flow-insensitive propagation of 'number taken from the input' inside one body; returns (tainted locals, sinks)"""
    b = P.bodies[key]
    tainted = dict(seeds)
    changed = True
    while changed:
        changed = False
        for blk in b["blocks"]:
            if blk["cl"]:
                continue
            for st in blk["s"]:
                d = st["d"]
                if not d or d[0] in tainted:
                    continue
                rv = st["rv"]
                ops = []
                if "p" in rv and rv["p"]:
                    ops.append(rv["p"][0])
                for o in rv.get("o", []):
                    pl = o.get("m") or o.get("c")
                    if pl:
                        ops.append(pl[0])
                if rv.get("r") in ("use", "cast", "bin", "agg", "ref", "un") and any(x in tainted for x in ops):
                    tainted[d[0]] = tainted[[x for x in ops if x in tainted][0]]
                    changed = True
            t = blk["t"]
            if t["t"] == "call" and len(t["d"]) == 1 and t["d"][0] not in tainted:
                k = t["f"].get("k") or {}
                nm = k.get("res") or k.get("fn") or ""
                ops = [(o.get("m") or o.get("c") or [None])[0] for o in t["a"]]
                if any(x in tainted for x in ops) and (nm.startswith(("core::option::", "core::result::", "core::convert::", "core::clone::", "core::ops::range::", "core::cmp::"))
                                                       or nm.endswith(("::into", "::from", "::unwrap", "::into_iter", "::clone", "::min", "::max"))):
                    if not nm.endswith(("::min",)):     # `n.min(LIMIT)` bounds the value
                        tainted[t["d"][0]] = tainted[[x for x in ops if x in tainted][0]]
                        changed = True
    sinks = []
    for blk in b["blocks"]:
        if blk["cl"]:
            continue
        t = blk["t"]
        if t["t"] != "call":
            continue
        k = t["f"].get("k") or {}
        nm = k.get("res") or k.get("fn") or ""
        ops = [(o.get("m") or o.get("c") or [None])[0] for o in t["a"]]
        if not any(x in tainted for x in ops):
            continue
        ga0 = (k.get("ga") or [""])[0]
        if (k.get("fn") or "").endswith("Iterator::next") and re.match(r"std::ops::Range(Inclusive)?<(%s)>" % "|".join(WIDE), ga0):
            sinks.append((t["l"], "iterates a numeric range", None))
        elif _ALLOC_SINKS.search(nm) and any(x in tainted for x in ops[-1:] if x is not None):
            sinks.append((t["l"], f"sizes an allocation ({nm.rsplit('::', 1)[-1]})", None))
        elif nm in P.bodies and P.bodies[nm].get("dk") in ("Fn", "AssocFn"):
            for i, x in enumerate(ops):
                if x in tainted:
                    sinks.append((t["l"], "passes it on", (nm, i + 1)))
    return tainted, sinks


def rule_x11(P, reach, tables):
    """Bounded time and memory: a number read from the input with a wide integer type (u32/u64/usize/..: `str::parse`,
    `from_str_radix`) must not decide how often a loop runs or how much is allocated.  (A u16 bounds the work by its type; that is
    the only bound e.g. on the expansion of a glyph range `a.001 - a.120`.)  Forward taint from wide parses to Range iteration /
    allocation sizes, through at most two calls; `n.min(LIMIT)` and comparisons that feed an early return are not modelled, such
    sites are audited."""
    from common import norm_fn
    findings, obl = [], []
    allowed = {e["fn"]: e for e in tables.get("e4_recursion", {}).get("input_sized_allowed", [])}
    n_src = 0
    seen_fns = set()
    for key in sorted(reach):
        b = P.bodies.get(key)
        if not b or "#promoted" in key or key.startswith(("fontc::timing", "fontc[bin]")):
            continue
        seeds = {}
        for blk in b["blocks"]:
            t = blk["t"]
            if t["t"] == "call" and not blk["cl"] and len(t["d"]) == 1:
                w = _wide_parse(t)
                if w:
                    seeds[t["d"][0]] = (t["l"], w)
        if not seeds:
            continue
        n_src += len(seeds)
        root_src = sorted(seeds.values())[0]
        work = [(key, seeds, 0, [])]
        while work:
            fn, sd, depth, chain = work.pop()
            tainted, sinks = _taint_body(P, fn, sd)
            for line, what, nxt in sinks:
                if nxt is None:
                    nf = norm_fn(key)
                    seen_fns.add(nf)
                    ok = nf in allowed
                    via = (" via " + " -> ".join(c.rsplit("::", 1)[-1] for c in chain + [fn])) if chain else ""
                    obl.append({"rule": "X11", "inst": f"{nf}: a wide integer parsed from the input {what}{via}: {(allowed.get(nf) or {}).get('reason', 'NOT AUDITED')[:80]}", "ok": ok})
                    if not ok:
                        src = root_src
                        findings.append(F("X11", f"X11|{nf}|{what.split(' (')[0]}", f"{key} parses a {src[1]} from the input (line {src[0]}) and that number {what}{via} (line {line} of {fn}): "
                                          f"a few bytes of input ('bar.0000000000 - bar.4000000000') make the compiler loop or allocate billions of times - only the width of the integer type bounds the work",
                                          P.site_loc(key, src[0])))
                elif depth < 2:
                    cal, pi = nxt
                    work.append((cal, {pi: (line, "passed")}, depth + 1, chain + [fn]))
    for fn in allowed:
        if fn not in seen_fns:
            findings.append(F("X11", f"X11|stale|{fn}", f"audited input-sized site {fn} matches nothing any more; remove it", "tables/e4_recursion.json"))
    obl.append({"rule": "X11", "inst": f"{n_src} wide integer parses from text in the compile path examined", "ok": True})
    return findings, obl, {"x11_wide_parses": n_src}


def rule_x12(P):
    """Source loaders interpret the whole input on the calling thread, before the scheduler (and its per-job catch_unwind) exists.
    A panic there (an unwrap on a malformed number, an index, a shift) would end the process with status 101 and a backtrace instead
    of a reported error.  Containment clause: every call of a constructor of a `Source` implementation (an associated function of
    the implementing type that returns it) sits inside a closure that is handed to std::panic::catch_unwind."""
    from common import norm_fn
    findings, obl = [], []
    impl_types = set()
    for im in P.impls:
        if im.get("trait") == "fontir::source::Source" and im.get("self"):
            impl_types.add(im["self"].split("<")[0])
    if len(impl_types) < 3:
        raise E4Error(f"X12: Source implementations not found: {sorted(impl_types)}")
    ctors = set()
    for k, b in P.bodies.items():
        st = (b.get("impl_self") or "").split("<")[0]
        if st in impl_types and b.get("dk") == "AssocFn":
            ret = b["locals"][0]
            if st in ret and ret.startswith("std::result::Result<") and b["argc"] >= 1 and "self" not in (b.get("names") or {}).get("1", ""):
                ctors.add(k)
    if len(ctors) < 3:
        raise E4Error(f"X12: too few Source constructors found: {sorted(ctors)}")
    # closures handed to catch_unwind
    guarded = set()
    for k, b in P.bodies.items():
        for blk in b["blocks"]:
            t = blk["t"]
            if t["t"] != "call" or blk["cl"]:
                continue
            nm = (t["f"].get("k") or {}).get("res") or (t["f"].get("k") or {}).get("fn") or ""
            if not nm.endswith("panic::catch_unwind"):
                continue
            ga = " ".join((t["f"].get("k") or {}).get("ga") or [])
            for ck in P.bodies:
                if ck.startswith(k + "::{closure") or (P.bodies[ck].get("parent") == k):
                    span = P.bodies[ck].get("span", "")
                    # the closure type printed in the generic args carries file:line of the closure
                    if span and span.rsplit(":", 1)[-1] and (f"{span.split(':')[0]}:{span.rsplit(':', 1)[-1]}:" in ga):
                        guarded.add(ck)
    n = 0
    for k, b in sorted(P.bodies.items()):
        if "#promoted" in k or k in ctors:
            continue
        st = (b.get("impl_self") or "").split("<")[0]
        for s in P.iter_sites(k):
            if s["kind"] != "call" or not (set(s["targets"]) & ctors) or b["blocks"][s["bi"]]["cl"]:
                continue
            if st in impl_types:
                continue    # one constructor delegating to another
            n += 1
            # inside a guarded closure (or a closure nested in one)?
            kk, ok = k, False
            while kk:
                if kk in guarded:
                    ok = True
                    break
                kk = P.bodies[kk].get("parent") if kk in P.bodies else None
            ctor = sorted(set(s["targets"]) & ctors)[0].rsplit("::", 2)
            obl.append({"rule": "X12", "inst": f"{norm_fn(k)} builds a source ({ctor[-1]}) inside catch_unwind", "ok": ok})
            if not ok:
                findings.append(F("X12", f"X12|{norm_fn(k)}", f"{k} calls a Source constructor outside std::panic::catch_unwind: the loader interprets the input on the calling thread, so any panic in it "
                                  f"(malformed number, missing attribute, index) ends the process with status 101 instead of an error", P.site_loc(k, s["line"])))
    if n < 3:
        raise E4Error(f"X12: only {n} Source constructor call sites seen")
    return findings, obl, {"x12_source_ctor_calls": n, "x12_guarded_closures": len(guarded)}
