"""Engine E5 - sibling agreement and layering (C05 clause b: T1; C14: P1-P4; C20: Q1; C13: L1)."""
from collections import defaultdict

from prog import CFG, def_sites, backward_slice, operand_local, operand_place, place_fields
import re
import e1 as e1mod

BE_ID = e1mod.BE_ID
FE_ID = e1mod.FE_ID


class E5Error(Exception):
    pass


def F(rule, key, msg, loc, detail=None):
    return {"rule": rule, "key": key, "msg": msg, "loc": loc, "detail": detail or {}}


def switch_arms(P, fn_key, param_local, enum_adt):
    """For a function matching on an enum parameter: returns (arms: variant -> entry block, otherwise_block, switch_block)"""
    body = P.bodies[fn_key]
    adt = P.adts[enum_adt]
    for bi, blk in enumerate(body["blocks"]):
        t = blk["t"]
        if t["t"] != "sw":
            continue
        dl = operand_local(t["o"])
        src = None
        for st in blk["s"]:
            if st["d"] == [dl] and st["rv"].get("r") == "discr":
                src = st["rv"]["p"]
        if src is None or src[0] != param_local:
            continue
        arms = {}
        for v, tg in zip(t["v"], t["to"][:-1]):
            arms[adt["variants"][int(v)]["name"]] = tg
        return arms, t["to"][-1], bi
    raise E5Error(f"no discriminant switch on parameter _{param_local} in {fn_key}")


def block_is_unreachable(body, bi):
    return body["blocks"][bi]["t"]["t"] == "unreachable"


def arm_blocks(body, cfg, entry, switch_block):
    """blocks belonging to one match arm: reachable from entry without passing through blocks that
    other arms also reach is not needed here - arms of these tables are straight-line: take blocks dominated by entry"""
    dom = cfg.dominators()
    return [b for b in range(cfg.n) if b in dom and entry in dom[b]]


# ---------------------------------------------------------------------------------------------- T1
REQUIRED_TABLES = ["Cmap", "Head", "Hhea", "Hmtx", "Maxp", "Name", "Os2", "Post", "Glyf", "Loca"]


def rule_t1(P, E, M):
    findings, obl, samples = [], [], []
    need = ["fontbe::font::TABLES_TO_MERGE", "fontbe::font::has", "fontbe::font::bytes_for"]
    for k in need:
        if k not in P.bodies:
            raise E5Error(f"anchor {k} not found")
    merge = {v for (d, v) in E.ids_in_body(P.bodies["fontbe::font::TABLES_TO_MERGE"]) if d == "Be"}
    merge |= {v for (d, v) in E.const_ids("fontbe::font::TABLES_TO_MERGE#promoted0") if d == "Be"}
    if not merge:
        raise E5Error("TABLES_TO_MERGE: no WorkId variants found")

    def arms_of(fn):
        body = P.bodies[fn]
        pl = None
        for i in range(1, body["argc"] + 1):
            if body["locals"][i] in (BE_ID, "&" + BE_ID):
                pl = i
        if pl is None:
            raise E5Error(f"{fn}: no WorkId parameter")
        arms, other, sb = switch_arms(P, fn, pl, BE_ID)
        cfg = CFG(body)
        touches = E.touches(fn)
        res = {}
        for v, entry in arms.items():
            if entry == other:
                continue
            blocks = set(arm_blocks(body, cfg, entry, sb))
            slots = {(t["ctx"], t["field"], t["op"]) for t in touches if t["bi"] in blocks}
            res[v] = slots
        return res

    has = arms_of("fontbe::font::has")
    bf = arms_of("fontbe::font::bytes_for")
    fw = next((j for j in M.jobs.values() if j["self"] == "fontbe::font::FontWork"), None)
    if fw is None:
        raise E5Error("FontWork not found")
    fw_reads = {v for ((d, v), k) in fw["rdecl"]["items"] if d == "Be"}

    ok = set(has) == merge
    obl.append({"rule": "T1", "inst": "arms of font::has == TABLES_TO_MERGE", "ok": ok})
    if not ok:
        findings.append(F("T1", "T1|has-vs-merge", f"font::has handles {sorted(set(has) - merge)} not in TABLES_TO_MERGE / misses {sorted(merge - set(has))}: a table in the merge list that has() never reports is silently left out of every font", "fontbe/src/font.rs"))
    ok = set(bf) == merge
    obl.append({"rule": "T1", "inst": "arms of font::bytes_for == TABLES_TO_MERGE", "ok": ok})
    if not ok:
        findings.append(F("T1", "T1|bytes_for-vs-merge", f"font::bytes_for handles {sorted(set(bf) - merge)} not in TABLES_TO_MERGE / misses {sorted(merge - set(bf))} (missing arm panics 'Missing a match')", "fontbe/src/font.rs"))
    ok = merge <= fw_reads
    obl.append({"rule": "T1", "inst": "TABLES_TO_MERGE subset of FontWork::read_access", "ok": ok})
    if not ok:
        findings.append(F("T1", "T1|merge-vs-read_access", f"TABLES_TO_MERGE lists {sorted(merge - fw_reads)} which FontWork::read_access does not declare: FontWork can run before those tables exist and skip them", "fontbe/src/font.rs"))
    for r in REQUIRED_TABLES:
        ok = r in merge
        obl.append({"rule": "T1", "inst": f"required table {r} in TABLES_TO_MERGE", "ok": ok})
        if not ok:
            findings.append(F("T1", f"T1|required|{r}", f"required OpenType table {r} is not in TABLES_TO_MERGE: no emitted font can contain it", "fontbe/src/font.rs"))
    # arm-by-arm: the slot has() tests, the slot bytes_for() reads and the slot whose id is the arm's variant agree
    for v in sorted(merge):
        want = [sk for sk, sv in M.slots.items() if sv["id"] == ("Be", v)]
        hs = {(c, f) for (c, f, op) in has.get(v, set())}
        bs = {(c, f) for (c, f, op) in bf.get(v, set())}
        ok = len(want) == 1 and hs == {want[0]} and bs == {want[0]}
        obl.append({"rule": "T1", "inst": f"arm {v}: has() and bytes_for() touch exactly the slot of Be({v})", "ok": ok})
        if ok and len(samples) < 3:
            samples.append({"rule": "T1", "variant": v, "has_tests": sorted(hs), "bytes_for_reads": sorted(bs)})
        if not ok:
            findings.append(F("T1", f"T1|arm|{v}", f"table-assembly arm {v}: has() touches {sorted(hs)}, bytes_for() touches {sorted(bs)}, expected the slot of Be({v}) {want}: a present table can be skipped or the wrong table's bytes stored under this tag", "fontbe/src/font.rs"))
        # has() must use try_get (not the panicking get)
        if any(op == "get" for (c, f, op) in has.get(v, set())):
            findings.append(F("T1", f"T1|has-get|{v}", f"font::has uses the panicking get() for {v}", "fontbe/src/font.rs"))
    # every BE item slot some job writes is consumed by some job or by the main thread
    written = defaultdict(set)
    read = defaultdict(set)
    for j in M.jobs.values():
        for sk in j["writes"]:
            written[sk].add(j["self"])
        for sk in j["reads"]:
            read[sk].add(j["self"])
    main_reads = set()
    for k in ("fontc::generate_font", "fontc::write_font_file"):
        if k in P.bodies:
            for t in E.touches(k):
                main_reads.add((t["ctx"], t["field"]))
    for t in M.main_touches:
        main_reads.add((t["ctx"], t["field"]))
    for sk, ws in sorted(written.items()):
        if sk[0] != "Be" or M.slots[sk]["kind"] != "item":
            continue
        ok = bool(read.get(sk)) or sk in main_reads
        obl.append({"rule": "T1", "inst": f"slot Be.{sk[1]} written by {sorted(ws)} is consumed", "ok": ok})
        if not ok:
            findings.append(F("T1", f"T1|unconsumed|Be.{sk[1]}", f"slot Be.{sk[1]} is written by {sorted(ws)} but no job and no main-thread reader ever reads it: the table is built and never merged into the font", "fontbe/src/orchestration.rs"))
    stats = {"merge_list": sorted(merge), "has_arms": len(has), "bytes_for_arms": len(bf)}
    return findings, obl, samples, stats


# ---------------------------------------------------------------------------------------------- P1-P4 (C14)
def literals_in(P, fn_keys):
    out = []
    for fk in fn_keys:
        b = P.bodies.get(fk)
        if not b:
            continue
        for blk in b["blocks"]:
            if blk["cl"]:
                continue
            for st in blk["s"]:
                for op in st["rv"].get("o", []):
                    k = op.get("k")
                    if k and "str" in k:
                        out.append(k["str"])
            t = blk["t"]
            if t["t"] == "call":
                for op in t["a"]:
                    k = op.get("k")
                    if k and "str" in k:
                        out.append(k["str"])
    return out


def rule_p1_p2(P, crate, enum_adt):
    findings, obl, samples = [], [], []
    key = None
    for k, b in P.bodies.items():
        if k.startswith(f"{crate}::paths::") and k.endswith("::target_file") and b.get("impl_self") == f"{crate}::paths::Paths":
            key = k
    if key is None:
        raise E5Error(f"{crate}::paths::Paths::target_file not found")
    body = P.bodies[key]
    pl = None
    for i in range(1, body["argc"] + 1):
        if body["locals"][i] == f"&{enum_adt}":
            pl = i
    if pl is None:
        raise E5Error(f"{key}: no &WorkId parameter")
    # the match is on *id: place [pl, "*"]
    adt = P.adts[enum_adt]
    arms = None
    for bi, blk in enumerate(body["blocks"]):
        t = blk["t"]
        if t["t"] != "sw":
            continue
        dl = operand_local(t["o"])
        for st in blk["s"]:
            if st["d"] == [dl] and st["rv"].get("r") == "discr" and st["rv"]["p"][0] == pl:
                arms = {adt["variants"][int(v)]["name"]: tg for v, tg in zip(t["v"], t["to"][:-1])}
                other = t["to"][-1]
    if arms is None:
        raise E5Error(f"{key}: discriminant switch not found")
    all_variants = [v["name"] for v in adt["variants"]]
    ok = set(arms) == set(all_variants) and block_is_unreachable(body, other)
    obl.append({"rule": "P1", "inst": f"{crate} target_file: one arm per WorkId variant, no wildcard", "ok": ok})
    if not ok:
        findings.append(F("P1", f"P1|{crate}|exhaustive", f"{key}: variants without their own arm {sorted(set(all_variants) - set(arms))} (a wildcard arm maps several work ids to one file)", P.body_file_line(key)))
    cfg = CFG(body)
    sig = {}
    helpers = {}
    for v, entry in arms.items():
        blocks = set(arm_blocks(body, cfg, entry, None))
        lits = []
        hs = []
        for bi in blocks:
            blk = body["blocks"][bi]
            t = blk["t"]
            if t["t"] == "call":
                for op in t["a"]:
                    k = op.get("k")
                    if k and "str" in k:
                        lits.append(k["str"])
                k = t["f"].get("k")
                if k:
                    callee = k.get("res") or k["fn"]
                    if callee in P.bodies and callee.startswith(f"{crate}::paths::"):
                        hs.append(callee)
            for st in blk["s"]:
                for op in st["rv"].get("o", []):
                    k = op.get("k")
                    if k and "str" in k:
                        lits.append(k["str"])
        if hs:
            reach = P.reachable(hs)
            reach = [r for r in reach if r.startswith(f"{crate}::paths::")]
            lits += literals_in(P, reach)
            helpers[v] = sorted(hs)
        sig[v] = tuple(sorted(lits))
    # literal arms: exactly one literal, pairwise distinct ignoring case
    lit_arms = {v: s[0] for v, s in sig.items() if v not in helpers and len(s) == 1}
    odd = [v for v in sig if v not in helpers and v not in lit_arms]
    for v in odd:
        findings.append(F("P1", f"P1|{crate}|shape|{v}", f"{key}: arm {v} is neither a single literal file name nor a call of a Paths helper", P.body_file_line(key)))
    seen = {}
    for v, s in sorted(lit_arms.items()):
        ks = s.lower()
        ok = ks not in seen
        obl.append({"rule": "P1", "inst": f"{crate}: file name of {v} ('{s}') is unique (case-insensitively)", "ok": ok})
        if not ok:
            findings.append(F("P1", f"P1|{crate}|dup|{v}", f"{key}: work ids {seen[ks]} and {v} are both persisted to '{s}': one overwrites the other and a later read restores the wrong value", P.body_file_line(key)))
        seen.setdefault(ks, v)
    # parametric arms: distinct helper and distinct literal signature
    psig = {}
    for v, hs in sorted(helpers.items()):
        s = tuple(x.lower() for x in sig[v])
        ok = s not in psig and len(s) > 0
        obl.append({"rule": "P1", "inst": f"{crate}: parametric arm {v} has its own literal namespace {list(sig[v])}", "ok": ok})
        if ok and len(samples) < 4:
            samples.append({"rule": "P1", "variant": v, "helpers": hs, "literals": list(sig[v])})
        if not ok:
            findings.append(F("P1", f"P1|{crate}|namespace|{v}", f"{key}: parametric arms {psig.get(s)} and {v} build file names from the same literal parts {list(sig[v])}: equal parameters collide", P.body_file_line(key)))
        psig.setdefault(s, v)
    # P2: no lossy formatting (precision / width) anywhere in the paths module of this crate
    fmts = [f for f in P.fmts if f["crate"] == crate and f["path"].startswith("paths::")]
    n = 0
    for f in fmts:
        n += 1
        ok = not f["prec"]
        obl.append({"rule": "P2", "inst": f"{crate} {f['path']}:{f['line']} format placeholder ({f['trait']}) has no precision", "ok": ok})
        if not ok:
            fn = f["path"].split("::")[-1]
            findings.append(F("P2", f"P2|{crate}|{f['path']}", f"{crate}::{f['path']} formats a value with a fixed precision inside a persisted file name: distinct ids that differ beyond that precision are written to the same file", f"{crate}/src/paths.rs:{f['line']}"))
    stats = {f"{crate}_arms": len(arms), f"{crate}_literal_arms": len(lit_arms), f"{crate}_parametric_arms": len(helpers), f"{crate}_paths_format_placeholders": n}
    return findings, obl, samples, stats


def rule_p3(P, tables):
    """serde skip attributes on fields of persisted types == documented set"""
    findings, obl = [], []
    allowed = {(e["adt"], e["field"]): e for e in tables.get("e5_tables", {}).get("serde_skip_allowed", [])}
    persistable = set()
    for imp in P.impls:
        if imp["trait"] == "fontir::orchestration::Persistable":
            persistable.add(imp["self"])
    if len(persistable) < 5:
        raise E5Error("Persistable impls not found")
    # ADTs reachable through field types of persistable types
    reach = set()
    work = list(persistable)
    while work:
        t = work.pop()
        for ak in P.adts:
            if ak in t and ak not in reach:
                reach.add(ak)
                for v in P.adts[ak]["variants"]:
                    for f in v["fields"]:
                        work.append(f["ty"])
    seen = set()
    for fa in P.fieldattrs:
        if "skip" not in fa["attr"]:
            continue
        ak = f"{fa['crate']}::{fa['path']}"
        if ak not in reach:
            continue
        k = (ak, fa["field"])
        seen.add(k)
        ok = k in allowed and allowed[k]["attr"] == fa["attr"]
        obl.append({"rule": "P3", "inst": f"{ak}.{fa['field'] or '<tuple field>'} {fa['attr']} is a documented session-only / lossless field", "ok": ok})
        if not ok:
            findings.append(F("P3", f"P3|{ak}|{fa['field']}", f"field {ak}.{fa['field'] or '<tuple field>'} of a persisted type is marked {fa['attr']}: it is lost when intermediate state is written to disk and read back", f"{fa['crate']}/src:{fa['line']}"))
    stats = {"persistable_types": len(persistable), "adts_reached": len(reach), "skip_fields": len(seen)}
    return findings, obl, stats


def rule_p4(P):
    """Persistable::read and PersistentStorage::reader are called only from ContextItem::get / ContextMap::get after try_get returned None"""
    findings, obl = [], []
    n = 0
    allowed_callers = {k for k, b in P.bodies.items() if (b.get("impl_self") or "").startswith(("fontir::orchestration::ContextItem<", "fontir::orchestration::ContextMap<")) and k.endswith("::get")}
    if len(allowed_callers) < 2:
        raise E5Error("ContextItem::get / ContextMap::get not found")
    for k, b in P.bodies.items():
        if k.split("::", 1)[0] not in ("fontir", "fontbe", "fontc", "fontc[bin]", "fontdrasil", "ufo2fontir", "glyphs2fontir", "fontra2fontir"):
            continue
        cfg = None
        for site in P.iter_sites(k):
            if site["kind"] != "call" or not site["info"]:
                continue
            fn = site["info"]["fn"]
            if fn in ("fontir::orchestration::Persistable::read", "fontir::orchestration::PersistentStorage::reader"):
                n += 1
                ok = k in allowed_callers
                if ok:
                    # dominated by the None edge of try_get
                    body = b
                    cfg = cfg or CFG(body)
                    tg_blocks = [s["bi"] for s in P.iter_sites(k) if s["kind"] == "call" and s["info"] and s["info"]["fn"].endswith("::try_get")]
                    ok = any(cfg.dominates(tb, site["bi"]) and tb != site["bi"] for tb in tg_blocks)
                obl.append({"rule": "P4", "inst": f"{fn.split('::')[-1]} called in {k} only on the restore path", "ok": ok})
                if not ok:
                    findings.append(F("P4", f"P4|{k}|{fn.split('::')[-1]}", f"{k} reads persisted state from disk outside the restore path of ContextItem/ContextMap::get: turning IR emission on can change what the compiler computes", P.site_loc(k, site["line"])))
    if n < 4:
        raise E5Error(f"P4: expected >=4 restore-path calls, found {n}")
    return findings, obl, {"restore_calls": n}


# ---------------------------------------------------------------------------------------------- Q1 (C20)
def dominators_in_callgraph(P, root, targets, skip):
    """functions (other than root) through which every call path from root to every target passes"""
    edges = P.edges()
    reach = P.reachable([root], skip)
    nodes = [n for n in reach if n in P.bodies]
    common = None
    for tg in targets:
        if tg not in reach:
            return None
        # dominators of tg from root: nodes whose removal disconnects tg
        doms = set()
        for cand in nodes:
            if cand in (root, tg):
                continue
            # reachability avoiding cand
            seen = {root}
            stack = [root]
            found = False
            while stack and not found:
                x = stack.pop()
                for y in edges.get(x, ()):
                    if y == cand or y in seen or skip(x, y):
                        continue
                    if y == tg:
                        found = True
                        break
                    seen.add(y)
                    if y in P.bodies:
                        stack.append(y)
            if not found:
                doms.add(cand)
        common = doms if common is None else (common & doms)
    return common


def rule_q1(P):
    findings, obl, samples = [], [], []
    targets = ["fontc::workload::{impl#0}::new", "fontc::workload::{impl#0}::exec"]
    nr = [k for k in P.bodies if k.endswith("::new_root") and P.bodies[k].get("impl_self") in (e1mod.FE_CTX, e1mod.BE_CTX)]
    if len(nr) != 2:
        raise E5Error("Context::new_root anchors not found")
    targets += nr
    roots = [r for r in ("fontc::run", "fontc::generate_font") if r in P.bodies]
    if len(roots) != 2:
        raise E5Error(f"entry points fontc::run / fontc::generate_font not found: {roots}")

    def skip(a, b):
        return P.is_work_exec_impl(b)

    # restrict candidate dominators to fontc crate functions (cheap and sufficient)
    per_root = {}
    for r in roots:
        d = dominators_in_callgraph_fast(P, r, targets, skip)
        per_root[r] = d
        ok = bool(d)
        obl.append({"rule": "Q1", "inst": f"from {r}: a single function dominates Workload::new, Workload::exec and both Context::new_root", "ok": ok})
        if not ok:
            findings.append(F("Q1", f"Q1|no-dominator|{r}", f"from {r} there is no single function through which every path to Workload::new/exec and both Context::new_root passes: the entry point assembles its own pipeline", P.body_file_line(r)))
    if all(per_root.values()):
        common = set.intersection(*per_root.values())
        ok = bool(common)
        obl.append({"rule": "Q1", "inst": "CLI and library entry points share the pipeline dominator", "ok": ok})
        samples.append({"rule": "Q1", "dominators": {r: sorted(d) for r, d in per_root.items()}})
        if not ok:
            findings.append(F("Q1", "Q1|different-pipelines", f"fontc::run and fontc::generate_font reach the scheduler through different functions ({ {r: sorted(d) for r, d in per_root.items()} }): two pipelines can drift apart", "fontc/src/lib.rs"))
    # nobody else calls the four (outside tests, which are not compiled here)
    rev = P.rev_edges()
    pipeline = set().union(*[d for d in per_root.values() if d]) if any(per_root.values()) else set()
    for tg in targets:
        callers = {c for c in rev.get(tg, ()) if c in P.bodies}
        extra = set()
        for c in callers:
            # the caller must itself be dominated: reachable from roots only through the pipeline function
            root_fn = P.bodies[c].get("root") or c
            if root_fn in pipeline or root_fn in targets:
                continue
            # allowed if every path from each root to c passes through a pipeline function
            okc = True
            for r in roots:
                dd = dominators_in_callgraph_fast(P, r, [c], skip)
                if dd is None:
                    continue  # not reachable from this root
                if not (dd & pipeline):
                    okc = False
            if not okc:
                extra.add(c)
        ok = not extra
        obl.append({"rule": "Q1", "inst": f"{tg} is only called below the pipeline dominator", "ok": ok})
        if not ok:
            findings.append(F("Q1", f"Q1|extra-caller|{tg}", f"{tg} is also called from {sorted(extra)} outside the common pipeline function", P.body_file_line(sorted(extra)[0])))
    return findings, obl, samples, {"entry_points": roots, "targets": targets}


def dominators_in_callgraph_fast(P, root, targets, skip):
    """call-graph dominators restricted to candidates in the fontc crate (lib/bin)"""
    edges = P.edges()
    reach = P.reachable([root], skip)
    cands = [n for n in reach if n in P.bodies and n.startswith(("fontc::", "fontc[bin]::")) and n != root]
    common = None
    for tg in targets:
        if tg not in reach:
            return None
        doms = set()
        for cand in cands:
            if cand == tg:
                continue
            seen = {root}
            stack = [root]
            found = False
            while stack and not found:
                x = stack.pop()
                for y in edges.get(x, ()):
                    if y == cand or y in seen or skip(x, y):
                        continue
                    if y == tg:
                        found = True
                        break
                    seen.add(y)
                    if y in P.bodies:
                        stack.append(y)
            if not found:
                doms.add(cand)
        common = doms if common is None else (common & doms)
    return common


# ---------------------------------------------------------------------------------------------- P5 escape alphabet (C14)
def rule_p5(P):
    """string_to_filename percent-escapes reserved characters and appends a '^' case suffix.  The encoding can only be
    injective if every metacharacter the encoder itself introduces ('%', '^', ...) is classified as reserved (and therefore
    escaped when it occurs in a name).  Decided structurally: the character constants the encoder emits vs the constants
    tested by is_reserved_char (switch values and closed comparison ranges, through its callees in the same module)."""
    findings, obl, samples = [], [], []
    enc = "fontdrasil::paths::string_to_filename"
    pred = "fontdrasil::paths::is_reserved_char"
    if enc not in P.bodies or pred not in P.bodies:
        raise E5Error("string_to_filename / is_reserved_char anchors not found")
    # ---- metacharacters introduced by the encoder
    meta = {}

    def add_meta(txt, why):
        if any(ch.isspace() for ch in txt) or len(txt) > 4:
            return
        for ch in txt:
            if not ch.isalnum() and ch not in "._-":
                meta.setdefault(ch, why)

    for f in P.fmtlits:
        if f["crate"] == "fontdrasil" and f["path"] == "paths::string_to_filename":
            for l in f["lits"]:
                add_meta(l, f"format literal {l!r}")
    body = P.bodies[enc]

    def const_char(op):
        k = op.get("k")
        if not k:
            return None
        if k.get("ty") == "char" and "int" in k:
            return chr(int(k["int"]))
        if k.get("ty") == "char" and "uneval" in k:
            cb = P.bodies.get(k["uneval"])
            if cb:
                for blk in cb["blocks"]:
                    for st in blk["s"]:
                        for o in st["rv"].get("o", []):
                            kk = o.get("k", {})
                            if kk.get("ty") == "char" and "int" in kk:
                                return chr(int(kk["int"]))
        return None

    for blk in body["blocks"]:
        if blk["cl"]:
            continue
        t = blk["t"]
        if t["t"] == "call":
            kk = t["f"].get("k")
            callee = (kk.get("res") or kk.get("fn")) if kk else ""
            if callee.endswith("::push") and "string" in callee:
                for a in t["a"][1:]:
                    ch = const_char(a)
                    if ch:
                        add_meta(ch, "String::push(const)")
            if callee.endswith("::push_str"):
                for a in t["a"][1:]:
                    s = a.get("k", {}).get("str")
                    if s:
                        add_meta(s, f"push_str({s!r})")
        for st in blk["s"]:
            for o in st["rv"].get("o", []):
                s = o.get("k", {}).get("str")
                if s:
                    add_meta(s, f"literal {s!r}")
    if not meta:
        raise E5Error("P5: no escape metacharacters found in string_to_filename")
    # ---- constants tested by the reserved-character predicate
    fns = [f for f in P.reachable([pred]) if f.startswith("fontdrasil::paths::") and f in P.bodies]
    values = set()
    los, his = [], []
    for fn in fns:
        b = P.bodies[fn]
        for blk in b["blocks"]:
            t = blk["t"]
            if t["t"] == "sw" and t.get("oty") in ("char", "u32"):
                for v in t["v"]:
                    values.add(int(v))
            for st in blk["s"]:
                rv = st["rv"]
                if rv.get("r") == "bin" and rv.get("op") in ("Le", "Lt", "Ge", "Gt", "Eq", "Ne") and rv.get("lty") in ("char", "u32"):
                    a, bb = rv["o"]
                    ca = a.get("k", {}).get("int")
                    cb_ = bb.get("k", {}).get("int")
                    op = rv["op"]
                    if op in ("Eq", "Ne"):
                        for c in (ca, cb_):
                            if c is not None:
                                values.add(int(c))
                        for o in (a, bb):
                            ch = const_char(o)
                            if ch:
                                values.add(ord(ch))
                    elif ca is not None and cb_ is None:      # const OP x
                        if op in ("Le", "Lt"):
                            los.append(int(ca) + (1 if op == "Lt" else 0))
                        else:
                            his.append(int(ca) - (1 if op == "Gt" else 0))
                    elif cb_ is not None and ca is None:      # x OP const
                        if op in ("Le", "Lt"):
                            his.append(int(cb_) - (1 if op == "Lt" else 0))
                        else:
                            los.append(int(cb_) + (1 if op == "Gt" else 0))
    lo = min(los) if los else 0
    ranges = [(lo, h) for h in his]
    for ch, why in sorted(meta.items()):
        c = ord(ch)
        ok = c in values or any(a <= c <= b for a, b in ranges)
        obl.append({"rule": "P5", "inst": f"escape metacharacter {ch!r} ({why}) is itself classified reserved by is_reserved_char", "ok": ok})
        samples.append({"rule": "P5", "metachar": ch, "introduced_by": why, "tested": ok})
        if not ok:
            findings.append(F("P5", f"P5|metachar|{ch}", f"string_to_filename introduces {ch!r} as an escape metacharacter ({why}) but is_reserved_char (and its callees) never tests for it: a name containing {ch!r} is written unescaped, so the encoding is not injective and two glyph names can share one IR file", P.body_file_line(pred)))
    return findings, obl, samples, {"escape_metachars": sorted(meta), "reserved_switch_values": len(values)}


# ---------------------------------------------------------------------------------------------- L1 cursor ownership (C13)
def rule_l1(P):
    """Losslessness of the FEA parse tree (token texts concatenated == input) needs: exactly one function advances the
    sink's source cursor, it slices the text by the same length it advances by, the lexer is only pulled by Parser::advance,
    and every function that advances the parser hands the consumed lexeme(s) to AstSink::token."""
    findings, obl, samples = [], [], []
    SINK = "fea_rs::token_tree::AstSink"
    tok = [k for k, b in P.bodies.items() if b.get("impl_self", "").startswith(SINK) and k.endswith("::token")]
    if len(tok) != 1:
        raise E5Error(f"AstSink::token not found: {tok}")
    tok = tok[0]
    # (i) writers of AstSink.text_pos
    writers = set()
    n_fields = 0
    for k, b in P.bodies.items():
        if not k.startswith("fea_rs::"):
            continue
        for blk in b["blocks"]:
            if blk["cl"]:
                continue
            for st in blk["s"]:
                d = st["d"]
                if any(e == f"f:text_pos:{SINK}" for e in d[1:]):
                    n_fields += 1
                    writers.add(k)
                rv = st["rv"]
                if rv.get("r") == "ref" and rv.get("bk") == "mut" and any(e == f"f:text_pos:{SINK}" for e in rv["p"][1:]):
                    writers.add(k)
    if n_fields == 0:
        raise E5Error("no write of AstSink.text_pos found")
    for w in sorted(writers):
        ok = w == tok
        obl.append({"rule": "L1", "inst": f"AstSink.text_pos is written in {w}", "ok": ok})
        if not ok:
            findings.append(F("L1", f"L1|cursor-writer|{w}", f"{w} moves the source cursor AstSink.text_pos; only AstSink::token may (it slices text[pos..pos+len] and adds the same len): a second writer drops or duplicates source text in the parse tree", P.body_file_line(w)))
    # (ii) in token(): the slice end and the increment use the same length parameter
    b = P.bodies[tok]
    len_param = None
    for i in range(1, b["argc"] + 1):
        if b["locals"][i] == "usize":
            len_param = i
    adds = []
    for blk in b["blocks"]:
        for st in blk["s"]:
            rv = st["rv"]
            if rv.get("r") == "bin" and rv.get("op") in ("Add", "AddWithOverflow", "AddUnchecked"):
                ls = [operand_local(o) for o in rv["o"] if operand_local(o) is not None]
                sl, _ = backward_slice(b, ls, None, through_calls=False)
                if len_param in sl:
                    adds.append(st)
    ok = len_param is not None and len(adds) >= 2
    obl.append({"rule": "L1", "inst": "AstSink::token slices by and advances by its own len parameter", "ok": ok})
    if not ok:
        findings.append(F("L1", "L1|token-shape", "AstSink::token no longer adds its len parameter both to the slice end and to the cursor", P.body_file_line(tok)))
    # (iii) the lexer is pulled only by Parser::advance
    rev = P.rev_edges()
    nt = [k for k in P.bodies if k.startswith("fea_rs::parse::lexer::") and k.endswith("::next_token")]
    adv = [k for k, bb in P.bodies.items() if k.startswith("fea_rs::parse::parser::") and k.endswith("::advance")]
    if len(nt) != 1 or len(adv) != 1:
        raise E5Error(f"Lexer::next_token / Parser::advance not found: {nt} {adv}")
    nt, adv = nt[0], adv[0]
    callers = {c for c in rev.get(nt, ()) if c in P.bodies and c.startswith("fea_rs::") and "::util::" not in c and "[bin]" not in c}
    for c in sorted(callers):
        root = P.bodies[c].get("root") or c
        ok = root in (adv,) or root.endswith("::lexer::tokenize") or root.startswith("fea_rs::parse::lexer::")
        obl.append({"rule": "L1", "inst": f"Lexer::next_token called from {c}", "ok": ok})
        if not ok:
            findings.append(F("L1", f"L1|lexer-caller|{c}", f"{c} pulls tokens from the lexer outside Parser::advance: those lexemes never reach the tree", P.body_file_line(c)))
    # (iv) every caller of advance hands tokens to the sink
    acallers = {c for c in rev.get(adv, ()) if c in P.bodies}
    for c in sorted(acallers):
        name = c.rsplit("::", 1)[1]
        if name == "new":
            obl.append({"rule": "L1", "inst": f"{c} primes the look-ahead buffer (no token consumed)", "ok": True})
            continue
        sink_calls = [s for s in P.iter_sites(c) if s["kind"] == "call" and tok in s["targets"]]
        ok = bool(sink_calls)
        if ok and name == "do_bump":
            cfg = CFG(P.bodies[c])
            ok = cfg.must_pass({s["bi"] for s in sink_calls})
        obl.append({"rule": "L1", "inst": f"{c} advances the parser and passes the consumed text to AstSink::token", "ok": ok})
        if not ok:
            findings.append(F("L1", f"L1|advance-without-token|{c}", f"{c} advances the parser without handing the consumed lexeme to AstSink::token on every path: its text is missing from the tree", P.body_file_line(c)))
    samples.append({"rule": "L1", "cursor_writers": sorted(writers), "advance_callers": sorted(acallers), "lexer_callers": sorted(callers)})
    return findings, obl, samples, {"cursor_writers": len(writers), "advance_callers": len(acallers)}


# ---------------------------------------------------------------------------------------------- T2 count-field provenance (C05)
import re as _re

COUNT_FIELD = _re.compile(r"^(number_of_|num_)|_count$")


def rule_t2(P, E, M):
    """Glyph-indexed tables agree on counts only if every count field of an emitted table is computed by the job that
    writes the corresponding array.  Structural necessary condition: no count-like field (number_of_*, num_*, *_count) of a
    write-fonts table aggregate built in a backend job may flow from the FEA override tables (Be.extra_fea_tables) or be
    left to a `..base` struct-update whose base comes from there."""
    findings, obl, samples = [], [], []
    fns = set()
    for j in M.jobs.values():
        if j["crate"] == "fontbe":
            fns |= {f for f in j["reach"] if f in P.bodies and f.startswith("fontbe::")}
    n = 0
    for fn in sorted(fns):
        body = P.bodies[fn]
        defs = None
        for blk in body["blocks"]:
            if blk["cl"]:
                continue
            for st in blk["s"]:
                rv = st["rv"]
                if rv.get("r") != "agg" or rv.get("ak") != "adt" or not rv["adt"].startswith("write_fonts::tables::"):
                    continue
                names = rv.get("fn") or []
                for name, op in zip(names, rv["o"]):
                    if not COUNT_FIELD.search(name):
                        continue
                    n += 1
                    l = operand_local(op)
                    bad = set()
                    if l is not None:
                        defs = defs or def_sites(body)
                        _, recs = backward_slice(body, [l], defs)
                        bad = {s for s in E.slots_read_in_slice(fn, body, recs) if s == ("Be", "extra_fea_tables")}
                    ok = not bad
                    inst = f"{fn}: {rv['adt'].split('::')[-1]}.{name} is computed by the job (not taken from the FEA override tables)"
                    obl.append({"rule": "T2", "inst": inst, "ok": ok})
                    if ok and len(samples) < 3:
                        samples.append({"rule": "T2", "site": P.site_loc(fn, st["l"]), "field": f"{rv['adt'].split('::')[-1]}.{name}", "from_fea_tables": False})
                    if not ok:
                        findings.append(F("T2", f"T2|{fn}|{rv['adt'].split('::')[-1]}.{name}",
                                          f"{fn} fills the count field {rv['adt'].split('::')[-1]}.{name} from the FEA override tables (Be.extra_fea_tables) instead of from the data it writes: the header count and the array length can disagree (fea-rs leaves such fields at their default)",
                                          P.site_loc(fn, st["l"])))
    return findings, obl, samples, {"count_fields_checked": n}


# ---------------------------------------------------------------------------------------------- L2 container loaders (C20)
def rule_l2(P):
    """A .glyphs file, the same text in memory and a .glyphspackage must yield the same RawFont.  Structural necessary condition:
    the code that only the package route executes assembles the raw font and does not *interpret* its content - it never
    consults custom parameters (those are interpreted once, on the common RawFont -> Font path)."""
    findings, obl, samples = [], [], []
    pk = [k for k, b in P.bodies.items() if k.endswith("::load_package") and "glyphs_reader::font::RawFont" in (b.get("impl_self") or "")]
    ls = [k for k, b in P.bodies.items() if k.endswith("::load_from_string") and (b.get("impl_self") or "") == "glyphs_reader::font::RawFont"]
    if len(pk) != 1 or len(ls) != 1:
        raise E5Error(f"RawFont::load_package / load_from_string not found: {pk} {ls}")
    only_pkg = {f for f in P.reachable([pk[0]]) if f in P.bodies and f.startswith("glyphs_reader::")} - \
               {f for f in P.reachable([ls[0]]) if f in P.bodies}
    interp = {k for k, b in P.bodies.items() if "CustomParameters" in (b.get("impl_self") or "") and b.get("dk") == "AssocFn"
              and not k.endswith(("::parse", "::fmt", "::clone", "::default", "::eq"))}
    if len(interp) < 5:
        raise E5Error("custom-parameter accessors not found")
    bad = []
    for f in sorted(only_pkg):
        for s in P.iter_sites(f):
            if s["kind"] in ("call", "fnref") and any(t in interp for t in s["targets"]):
                bad.append((f, s["line"], [t for t in s["targets"] if t in interp][0]))
    ok = not bad
    obl.append({"rule": "L2", "inst": f"{len(only_pkg)} package-only loader functions never consult custom parameters ({len(interp)} accessors)", "ok": ok})
    samples.append({"rule": "L2", "package_only_functions": sorted(only_pkg)[:6], "accessors": len(interp)})
    for f, line, t in bad:
        findings.append(F("L2", f"L2|{f}|{t.rsplit('::', 1)[1]}", f"{f} (executed only when the source is a .glyphspackage) consults a custom parameter ({t}): the package route interprets font content that the .glyphs-file and in-memory routes do not, so the same design can compile to different fonts depending on the container", P.site_loc(f, line)))
    return findings, obl, samples, {"package_only_functions": len(only_pkg), "custom_parameter_accessors": len(interp)}


# ---------------------------------------------------------------------------------------------- L3 diagnostic ranges (C13)
def rule_l3(P, tables):
    """Diagnostics must point at ranges on character boundaries inside the source.  Token ranges (Parser::nth_range, token
    .range fields, node ranges) have that property by construction (the lexer advances by whole characters); a range computed
    by byte arithmetic (`start + pos .. start + pos + 1`) does not.  Structural clause: in the FEA parser, the Range handed to a
    diagnostic constructor is not computed with integer arithmetic in the reporting function, except at audited sites."""
    findings, obl, samples = [], [], []
    allowed = {e["fn"]: e for e in tables.get("e5_tables", {}).get("range_arithmetic_allowed", [])}
    from common import norm_fn
    n = 0
    per_fn = defaultdict(list)
    for fn, body in P.bodies.items():
        if not fn.startswith("fea_rs::parse::"):
            continue
        defs = None
        for s in P.iter_sites(fn):
            if s["kind"] != "call" or body["blocks"][s["bi"]]["cl"]:
                continue
            tgs = s["targets"]
            if not any(t.startswith("fea_rs::") and t.rsplit("::", 1)[1] in ("raw_error", "error", "warning", "new") and ("diagnostic" in t or "parser" in t) for t in tgs):
                continue
            t = s["term"]
            for a in t["a"]:
                l = operand_local(a)
                if l is None or not body["locals"][l].startswith("std::ops::Range<usize>"):
                    continue
                n += 1
                defs = defs or def_sites(body)
                _, recs = backward_slice(body, [l], defs, through_calls=False)
                arith = [d for d in recs if d[0] == "stmt" and d[3]["rv"].get("r") == "bin" and d[3]["rv"].get("op", "").startswith(("Add", "Sub", "Mul"))]
                # field updates of the range local itself (range.end = range.start + 1)
                for blk in body["blocks"]:
                    for st in blk["s"]:
                        if st["d"][0] == l and len(st["d"]) > 1 and st["rv"].get("r") in ("bin", "use"):
                            ol = [operand_local(o) for o in st["rv"].get("o", [])]
                            for x in ol:
                                for d in (defs.get(x, []) if x is not None else []):
                                    if d[0] == "stmt" and d[3]["rv"].get("r") == "bin" and d[3]["rv"].get("op", "").startswith(("Add", "Sub")):
                                        arith.append(d)
                            if st["rv"].get("r") == "bin":
                                arith.append(("stmt", 0, 0, st))
                per_fn[norm_fn(fn)].append((s["line"], bool(arith)))
    for fn, sites in sorted(per_fn.items()):
        bad = [ln for ln, a in sites if a]
        if not bad:
            obl.append({"rule": "L3", "inst": f"{fn}: {len(sites)} diagnostic range(s) taken from token/node ranges", "ok": True})
            continue
        e = allowed.get(fn)
        ok = e is not None and len(bad) <= e.get("count", 1)
        obl.append({"rule": "L3", "inst": f"{fn}: diagnostic range computed with arithmetic (lines {bad})" + (f": audited ({e['reason'][:60]})" if ok else ""), "ok": ok})
        if not ok:
            findings.append(F("L3", f"L3|{fn}", f"{fn} reports a diagnostic whose range is computed with byte arithmetic (lines {bad}) instead of taken from a token range: for non-ASCII text the range can end inside a character or outside the source", P.site_loc(fn, bad[0])))
    if n < 10:
        raise E5Error(f"L3: too few diagnostic range arguments found ({n})")
    return findings, obl, samples, {"diagnostic_range_args": n}


# ---------------------------------------------------------------------------------------------- L4 UFO vs designspace lib keys (C20)
def rule_l4(P, tables):
    """A lone UFO and a designspace listing only that UFO must agree.  DesignSpaceIrSource::new copies the default master's lib
    into the designspace lib only for a lone UFO; for a .designspace input `public.*` keys are NOT merged.  So a `public.*`
    key looked up on `designspace.lib` is seen on one route and not on the other.  Structural clause: `public.*` keys are looked
    up on the designspace lib only for the documented keys."""
    findings, obl, samples = [], [], []
    allowed = {e["key"]: e for e in tables.get("e5_tables", {}).get("designspace_public_keys_allowed", [])}
    n_pub = 0
    n_ds = 0
    for fn, body in P.bodies.items():
        if not fn.startswith("ufo2fontir::"):
            continue
        defs = None
        for s in P.iter_sites(fn):
            if s["kind"] != "call" or body["blocks"][s["bi"]]["cl"]:
                continue
            if not any(t.startswith("plist::dictionary::") and t.rsplit("::", 1)[1] in ("get", "contains_key", "get_mut", "remove") for t in s["targets"]):
                continue
            t = s["term"]
            keys = [a.get("k", {}).get("str") for a in t["a"][1:]]
            # key may be passed through a &str local initialised from a constant
            if not any(keys):
                for a in t["a"][1:]:
                    l = operand_local(a)
                    if l is None:
                        continue
                    defs = defs or def_sites(body)
                    _, recs = backward_slice(body, [l], defs, through_calls=False)
                    for d in recs:
                        if d[0] == "stmt":
                            for o in d[3]["rv"].get("o", []):
                                k = o.get("k", {})
                                if "str" in k:
                                    keys.append(k["str"])
                                elif "uneval" in k and k["uneval"] in P.bodies:
                                    for blk in P.bodies[k["uneval"]]["blocks"]:
                                        for st in blk["s"]:
                                            for oo in st["rv"].get("o", []):
                                                if "str" in oo.get("k", {}):
                                                    keys.append(oo["k"]["str"])
            pub = [k for k in keys if k and k.startswith("public.")]
            if not pub:
                continue
            n_pub += 1
            recv = operand_local(t["a"][0])
            defs = defs or def_sites(body)
            _, recs = backward_slice(body, [recv], defs)
            on_ds = False
            for d in recs:
                rv = d[3]["rv"] if d[0] == "stmt" else None
                places = []
                if rv is not None:
                    places = [operand_place(o) for o in rv.get("o", [])] + ([rv["p"]] if "p" in rv else [])
                else:
                    places = [operand_place(o) for o in d[3]["a"]]
                for p in places:
                    if p and any(e.startswith("f:lib:norad::designspace::") for e in p[1:]):
                        on_ds = True
            if not on_ds:
                continue
            n_ds += 1
            for k in pub:
                ok = k in allowed
                obl.append({"rule": "L4", "inst": f"{fn} looks up '{k}' on the designspace lib" + (f": documented ({allowed[k]['reason'][:60]})" if ok else ""), "ok": ok})
                if not ok:
                    findings.append(F("L4", f"L4|{k}", f"{fn} looks up the UFO lib key '{k}' on designspace.lib: for a .designspace input public.* keys of the default master are not merged into that lib, so a lone UFO and a designspace listing only that UFO compile differently", P.site_loc(fn, s["line"])))
    if n_pub < 4:
        raise E5Error(f"L4: too few public.* lib lookups found ({n_pub})")
    return findings, obl, samples, {"public_key_lookups": n_pub, "on_designspace_lib": n_ds}


def rule_t3(P):
    """A table builder's `is_empty()` verdict decides whether the table is emitted at all.  It must be taken after the builder is
    complete: a write to a field that `is_empty` reads, reachable *after* the call on the same value, means the verdict was
    computed on a half-filled builder (the table - or the part filled later - is silently dropped although other tables
    already refer to it)."""
    WS = ("fea_rs::", "fontbe::", "fontir::", "fontc::", "fontdrasil::", "glyphs_reader::", "glyphs2fontir::", "ufo2fontir::", "fontra2fontir::")

    def fields_read(fn):
        out = set()
        b = P.bodies[fn]
        for blk in b["blocks"]:
            for st in blk["s"]:
                rv = st["rv"]
                pls = []
                if "p" in rv:
                    pls.append(rv["p"])
                for o in rv.get("o", []):
                    pl = o.get("m") or o.get("c")
                    if pl:
                        pls.append(pl)
                for pl in pls:
                    if pl and pl[0] == 1:
                        for e in pl[1:]:
                            if isinstance(e, str) and e.startswith("f:"):
                                out.add(e.split(":")[1])
                                break
        return out

    findings, obl = [], []
    n = 0
    from common import norm_fn
    for key, b in sorted(P.bodies.items()):
        if not key.startswith(WS):
            continue
        cfg = None
        for bi, blk in enumerate(b["blocks"]):
            t = blk["t"]
            if t["t"] != "call" or blk["cl"]:
                continue
            k = t["f"].get("k") or {}
            res = k.get("res") or ""
            if not (res.endswith("::is_empty") and res.startswith(WS) and res in P.bodies):
                continue
            n += 1
            a0 = operand_local(t["a"][0]) if t["a"] else None
            recv = None
            for b2 in b["blocks"]:
                for st in b2["s"]:
                    if st["d"] == [a0] and st["rv"].get("r") == "ref":
                        recv = st["rv"]["p"]
            ok = True
            if recv and t["to"]:
                base = recv[0]
                F = fields_read(res)
                cfg = cfg or CFG(b)
                for x in cfg.reachable_from(t["to"][0]):
                    for st in b["blocks"][x]["s"]:
                        d = st["d"]
                        if len(d) >= 2 and d[0] == base:
                            f = [e for e in d[1:] if isinstance(e, str) and e.startswith("f:")]
                            if f and f[0].split(":")[1] in F:
                                ok = False
                                findings.append({"rule": "T3", "key": f"T3|{norm_fn(key)}|{res.rsplit('::', 2)[-2]}|{f[0].split(':')[1]}",
                                                 "msg": f"{key} asks {res} whether the builder is empty and fills its field `{f[0].split(':')[1]}` afterwards (line {st['l']}): "
                                                        f"the verdict that decides whether the table is emitted does not see that field",
                                                 "loc": P.site_loc(key, t["l"]), "detail": {}})
            obl.append({"rule": "T3", "inst": f"{norm_fn(key)}: {res.split('::', 1)[1]} is consulted after the fields it reads are final", "ok": ok})
    if n < 10:
        raise E5Error(f"T3: only {n} builder is_empty() calls found")
    return findings, obl, {"builder_is_empty_calls": n}


def rule_l5(P):
    """Token lengths, split ranges and diagnostic ranges are BYTE offsets into the source.  A number of characters
    (`chars().count()`, `chars().position(..)`) is a different unit: used as a byte offset it ends inside a multi-byte character
    and the tree builder's `&text[pos..pos + len]` panics.  Structural clause: in the FEA front end a char count never meets a
    byte length in arithmetic / comparison and never becomes a Range bound."""
    from common import norm_fn
    findings, obl = [], []
    n_src = n_fn = 0
    BYTELEN = re.compile(r"^(core::str::\{impl#\d+\}::len|core::slice::\{impl#\d+\}::len|alloc::string::\{impl#\d+\}::len|alloc::vec::\{impl#\d+\}::len)$")
    for key, b in sorted(P.bodies.items()):
        if not key.startswith(("fea_rs::parse::", "fea_rs::token_tree")):
            continue
        n_fn += 1
        tainted, bytelen = {}, set()
        for blk in b["blocks"]:
            t = blk["t"]
            if t["t"] != "call" or blk["cl"]:
                continue
            k = t["f"].get("k") or {}
            fn = k.get("fn", "")
            d = t["d"]
            if fn.endswith(("Iterator::count", "Iterator::position", "Iterator::rposition")) and "str::Chars" in ((k.get("ga") or [""])[0]):
                if len(d) == 1:
                    tainted[d[0]] = t["l"]
                    n_src += 1
            if BYTELEN.match(k.get("res") or "") and len(d) == 1:
                bytelen.add(d[0])
        if not tainted:
            continue
        changed = True
        while changed:
            changed = False
            for blk in b["blocks"]:
                for st in blk["s"]:
                    d = st["d"]
                    if len(d) != 1 or d[0] in tainted:
                        continue
                    rv = st["rv"]
                    if rv.get("r") in ("use", "cast", "bin", "un"):
                        for o in rv.get("o", []):
                            pl = o.get("m") or o.get("c")
                            if pl and pl[0] in tainted:
                                tainted[d[0]] = tainted[pl[0]]
                                changed = True
                                break
                # Option adapters keep the unit: chars().position(..).unwrap_or(..)
                t = blk["t"]
                if t["t"] == "call" and not blk["cl"] and len(t["d"]) == 1 and t["d"][0] not in tainted:
                    k = t["f"].get("k") or {}
                    if (k.get("res") or k.get("fn") or "").startswith("core::option::"):
                        for o in t["a"]:
                            pl = o.get("m") or o.get("c")
                            if pl and pl[0] in tainted:
                                tainted[t["d"][0]] = tainted[pl[0]]
                                changed = True
                                break
        bad = []
        for blk in b["blocks"]:
            for st in blk["s"]:
                rv = st["rv"]
                ops = [(o.get("m") or o.get("c") or [None])[0] for o in rv.get("o", [])]
                if rv.get("r") == "bin" and any(x in tainted for x in ops) and any(x in bytelen for x in ops):
                    bad.append((st["l"], f"{rv.get('op')} with a byte length"))
                if rv.get("r") == "agg" and str(rv.get("adt", "")).startswith("core::ops::range::Range") and any(x in tainted for x in ops):
                    bad.append((st["l"], "used as a Range bound"))
            t = blk["t"]
            if t["t"] == "call" and not blk["cl"]:
                k = t["f"].get("k") or {}
                ops = [(o.get("m") or o.get("c") or [None])[0] for o in t["a"]]
                if (k.get("res") or k.get("fn") or "").startswith("core::option::") and any(x in tainted for x in ops) and any(x in bytelen for x in ops):
                    bad.append((t["l"], "defaulted to a byte length"))
                if (k.get("res") or k.get("fn") or "").endswith("::index") and any(x in tainted for x in ops[1:]):
                    bad.append((t["l"], "used to index the text"))
        obl.append({"rule": "L5", "inst": f"{norm_fn(key)}: character counts stay apart from byte offsets", "ok": not bad})
        if bad:
            findings.append({"rule": "L5", "key": f"L5|{norm_fn(key)}", "msg": f"{key} counts characters (line {sorted(set(tainted.values()))[0]}) and uses the count as a byte quantity "
                             f"({'; '.join(sorted({f'line {l}: {w}' for l, w in bad}))}): for multi-byte characters the resulting offset lies inside a character "
                             f"(slicing the source there panics) or past the end", "loc": P.site_loc(key, bad[0][0]), "detail": {}})
    obl.append({"rule": "L5", "inst": f"{n_fn} FEA front-end functions scanned; {n_src} character-count sources", "ok": True})
    if n_fn < 300:
        raise E5Error(f"L5: only {n_fn} FEA front-end functions seen")
    return findings, obl, {"l5_functions": n_fn, "l5_char_count_sources": n_src}


def rule_t4(P):
    """fea-rs mints name ids >= 256 for featureNames / cvParameters / sizemenuname / STAT names (NameBuilder::add_anon_group) and
    later shifts all of them past the ids the rest of the font uses (Compilation::remap_name_ids).  Sibling agreement: every field of
    an output table that receives a minted id must be one that remap_name_ids adjusts; a field it forgets keeps pointing at the old
    id - a name record that no longer exists (or someone else's)."""
    from common import norm_fn
    findings, obl = [], []
    remap = [k for k in P.bodies if k.startswith("fea_rs::compile::output::") and "::remap_name_ids" in k]
    if not remap:
        raise E5Error("T4: Compilation::remap_name_ids not found")
    adjusted = set()
    for k in remap:
        for blk in P.bodies[k]["blocks"]:
            for st in blk["s"]:
                d = st["d"]
                if len(d) > 1:
                    for e in d[1:]:
                        if isinstance(e, str) and e.startswith("f:"):
                            _, field, adt = e.split(":", 2)
                            adjusted.add((adt.rsplit("::", 1)[-1], field))
    minted = {}
    n_src = 0
    for key, b in sorted(P.bodies.items()):
        if not key.startswith("fea_rs::compile::"):
            continue
        tainted = {}
        for blk in b["blocks"]:
            t = blk["t"]
            if t["t"] == "call" and not blk["cl"]:
                k = t["f"].get("k") or {}
                # a minted id: returned by add_anon_group, or by anything else that hands a NameId out of a NameBuilder (T10 reports those)
                from_builder = (t.get("dty") or "").endswith("::NameId") and (b.get("impl_self") or "") != "fea_rs::compile::tables::name::NameBuilder" and \
                    any(str(b["locals"][(a.get("m") or a.get("c"))[0]]).endswith("NameBuilder") for a in t["a"] if (a.get("m") or a.get("c")))
                if ((k.get("res") or "").endswith("::add_anon_group") or from_builder) and len(t["d"]) == 1:
                    tainted[t["d"][0]] = t["l"]
                    n_src += 1
        if not tainted:
            continue
        changed = True
        while changed:
            changed = False
            for blk in b["blocks"]:
                for st in blk["s"]:
                    d = st["d"]
                    rv = st["rv"]
                    ops = [(o.get("m") or o.get("c") or [None])[0] for o in rv.get("o", [])]
                    if rv.get("r") == "agg" and rv.get("ak") == "adt" and any(x in tainted for x in ops):
                        adt = str(rv.get("adt", ""))
                        if adt.startswith(("core::option::", "core::result::")):
                            if len(d) == 1 and d[0] not in tainted:
                                tainted[d[0]] = tainted[[x for x in ops if x in tainted][0]]
                                changed = True
                            continue
                        names = rv.get("fn") or []
                        for i, x in enumerate(ops):
                            if x in tainted:
                                fname = names[i] if i < len(names) else str(i)
                                minted.setdefault((adt.rsplit("::", 1)[-1], fname), P.site_loc(key, st["l"]))
                        continue
                    if len(d) == 1 and d[0] not in tainted and rv.get("r") in ("use", "cast") and any(x in tainted for x in ops):
                        tainted[d[0]] = tainted[[x for x in ops if x in tainted][0]]
                        changed = True
                    if len(d) > 1 and rv.get("r") in ("use", "cast") and any(x in tainted for x in ops):
                        for e in d[1:]:
                            if isinstance(e, str) and e.startswith("f:"):
                                _, field, adt = e.split(":", 2)
                                minted.setdefault((adt.rsplit("::", 1)[-1], field), P.site_loc(key, st["l"]))
                t = blk["t"]
                if t["t"] == "call" and not blk["cl"] and len(t["d"]) == 1 and t["d"][0] not in tainted:
                    k = t["f"].get("k") or {}
                    nm = k.get("res") or k.get("fn") or ""
                    ops = [(o.get("m") or o.get("c") or [None])[0] for o in t["a"]]
                    if any(x in tainted for x in ops) and (nm.startswith(("font_types::", "core::convert::", "core::option::", "core::clone::")) or nm.endswith(("::to_u16", "::into", "::from"))):
                        tainted[t["d"][0]] = tainted[[x for x in ops if x in tainted][0]]
                        changed = True
    for (adt, field), loc in sorted(minted.items()):
        ok = (adt, field) in adjusted
        obl.append({"rule": "T4", "inst": f"{adt}.{field} receives a minted name id and is adjusted by remap_name_ids", "ok": ok})
        if not ok:
            findings.append({"rule": "T4", "key": f"T4|{adt}|{field}",
                             "msg": f"{adt}.{field} is filled with a name id minted by NameBuilder::add_anon_group, but Compilation::remap_name_ids never adjusts that field: "
                                    f"whenever the ids are shifted (the font already uses name ids >= 256, e.g. fvar instance names) it keeps the old id, which then names no record or the wrong one",
                             "loc": loc, "detail": {}})
    # sibling agreement inside remap_name_ids: every field it rewrites takes its new value from the one closure that knows which
    # ids must stay (`adjust_id`: reserved ids and the 0 placeholder are not shifted) - an inline `id + offset` shifts them too
    adjust = [k for k in remap if any(s_["kind"] == "call" and any(t.endswith("::is_reserved") for t in s_["targets"]) for s_ in P.iter_sites(k))]
    if len(adjust) != 1:
        raise E5Error(f"T4: the adjust closure of remap_name_ids was not found: {adjust}")
    aspan = P.bodies[adjust[0]].get("span", "")
    amark = f"{aspan.split(':')[0]}:{aspan.rsplit(':', 1)[-1]}:"
    for k in sorted(remap):
        if k == adjust[0]:
            continue
        b = P.bodies[k]
        writes = sorted({e.split(":")[1] for blk in b["blocks"] for st in blk["s"] if len(st["d"]) > 1 for e in st["d"][1:]
                         if isinstance(e, str) and e.startswith("f:") and ("name_id" in e or "name_entry" in e)})
        if not writes:
            continue
        uses_adjust = False
        for blk in b["blocks"]:
            t = blk["t"]
            if t["t"] != "call" or blk["cl"]:
                continue
            kk = t["f"].get("k") or {}
            if (kk.get("res") == adjust[0]) or any(amark in g for g in (kk.get("ga") or [])):
                uses_adjust = True
        obl.append({"rule": "T4", "inst": f"{norm_fn(k)} rewrites {','.join(writes)} through adjust_id", "ok": uses_adjust})
        if not uses_adjust:
            findings.append({"rule": "T4", "key": f"T4|inline-shift|{norm_fn(k)}|{','.join(writes)}",
                             "msg": f"{k} rewrites the name id field(s) {writes} without going through remap_name_ids' adjust closure: ids that must not move (reserved ids below 256, the 0 "
                                    f"placeholder) are shifted like minted ones - e.g. `ElidedFallbackNameID 2;` becomes 2 + offset and names another record", "loc": P.body_file_line(k), "detail": {}})
    if n_src < 8 or len(adjusted) < 8:
        raise E5Error(f"T4: too few minting sites ({n_src}) or adjusted fields ({len(adjusted)})")
    return findings, obl, {"t4_mint_sites": n_src, "t4_minted_fields": len(minted), "t4_adjusted_fields": len(adjusted)}


def rule_t5(P):
    """An id allocator must be advanced whenever an id is handed out.  In fea-rs's NameBuilder the next id is *computed* by
    next_name_id() and *consumed* by writing `last_nonreserved_id`; a function that returns a freshly computed id must write that
    field on every path to its return (a loop that may run zero times does not count), or two callers are given the same id."""
    from common import norm_fn
    findings, obl = [], []
    n = 0
    alloc = [k for k, b in P.bodies.items() if k.startswith("fea_rs::compile::tables::name::") and k.endswith("::next_name_id")]
    if len(alloc) != 1:
        raise E5Error(f"T5: NameBuilder::next_name_id not found: {alloc}")
    for key, b in sorted(P.bodies.items()):
        if not key.startswith("fea_rs::") or key == alloc[0]:
            continue
        calls = [bi for bi, blk in enumerate(b["blocks"]) if blk["t"]["t"] == "call" and not blk["cl"]
                 and ((blk["t"]["f"].get("k") or {}).get("res") == alloc[0])]
        if not calls:
            continue
        # only functions that hand the id to their caller
        ret_ty = b["locals"][0]
        if not ret_ty.endswith("NameId"):
            continue
        n += 1
        cfg = CFG(b)
        writers = set()
        for bi, blk in enumerate(b["blocks"]):
            if blk["cl"]:
                continue
            for st in blk["s"]:
                if len(st["d"]) > 1 and any(isinstance(e, str) and e.startswith("f:last_nonreserved_id:") for e in st["d"][1:]):
                    writers.add(bi)
        ok = bool(writers) and cfg.must_pass(writers)
        obl.append({"rule": "T5", "inst": f"{norm_fn(key)} consumes the name id it hands out on every path", "ok": ok})
        if not ok:
            findings.append({"rule": "T5", "key": f"T5|{norm_fn(key)}", "msg": f"{key} returns the id computed by next_name_id() but does not advance the allocator "
                             f"(`last_nonreserved_id`) on every path to its return: when the path that skips it is taken the next caller is given the same name id "
                             f"(two features / STAT values then share one name record)", "loc": P.body_file_line(key), "detail": {}})
    if n < 1:
        raise E5Error("T5: no function hands out a freshly computed name id")
    return findings, obl, {"t5_allocating_functions": n}


def rule_l6(P):
    """Losslessness needs every byte of the input to end up in some lexeme.  The parser stops at the first Eof lexeme, so the lexer
    may produce Eof only when the input is exhausted - never because a byte *value* equals an end-of-input sentinel (a NUL byte in
    the source used to end the file silently).  Structural clause: in Lexer::next_token every construction of Kind::Eof is
    dominated by the `None` edge of the Option that Lexer::bump returned."""
    from common import norm_fn
    findings, obl = [], []
    nt = [k for k, b in P.bodies.items() if (b.get("impl_self") or "").split("<")[0] == "fea_rs::parse::lexer::Lexer" and k.endswith("::next_token")]
    if len(nt) != 1:
        raise E5Error(f"L6: Lexer::next_token not found: {nt}")
    key = nt[0]
    b = P.bodies[key]
    cfg = CFG(b)
    dom = cfg.dominators()
    # the None edge of bump()'s result
    none_targets = set()
    for bi, blk in enumerate(b["blocks"]):
        t = blk["t"]
        if t["t"] == "call" and not blk["cl"] and (t["f"].get("k") or {}).get("res", "").endswith("::lexer::{impl#1}::bump") or \
                (t["t"] == "call" and not blk["cl"] and ((t["f"].get("k") or {}).get("res") or "").rsplit("::", 1)[-1] == "bump"):
            d = t["d"][0] if len(t["d"]) == 1 else None
            if d is None:
                continue
            for b2i, b2 in enumerate(b["blocks"]):
                disc = [st["d"][0] for st in b2["s"] if st["rv"].get("r") == "discr" and st["rv"].get("p") == [d] and len(st["d"]) == 1]
                t2 = b2["t"]
                if disc and t2["t"] == "sw" and operand_local(t2["o"]) in disc:
                    for v, tg in zip(t2["v"], t2["to"][:-1]):
                        if v == "0":
                            none_targets.add(tg)
                    if "0" not in t2["v"] and len(t2["v"]) == 1 and t2["v"][0] == "1":
                        none_targets.add(t2["to"][-1])
    eof_blocks = []
    for bi, blk in enumerate(b["blocks"]):
        if blk["cl"]:
            continue
        for st in blk["s"]:
            rv = st["rv"]
            if rv.get("r") == "agg" and rv.get("adt") == "fea_rs::parse::lexer::lexeme::Kind" and rv.get("v") == "Eof":
                eof_blocks.append((bi, st["l"]))
    if not eof_blocks:
        raise E5Error("L6: next_token never builds Kind::Eof")
    for bi, line in eof_blocks:
        ok = any(tn in dom.get(bi, set()) or tn == bi for tn in none_targets)
        obl.append({"rule": "L6", "inst": f"next_token builds Kind::Eof (line-independent site {len(obl)}) only after bump() returned None", "ok": ok})
        if not ok:
            findings.append({"rule": "L6", "key": f"L6|{norm_fn(key)}", "msg": f"{key} produces an Eof lexeme on a path that is not the `None` result of bump(): an input byte that "
                             f"equals the end-of-input sentinel ends the token stream early and the rest of the source is missing from the parse tree (not lossless, no diagnostic)",
                             "loc": P.site_loc(key, line), "detail": {}})
    # nobody else in the lexer manufactures Eof lexemes
    others = []
    for k2, b2 in P.bodies.items():
        if k2.startswith("fea_rs::parse::lexer::") and k2 != key and "#promoted" not in k2 and b2.get("dk") in ("Fn", "AssocFn", "Closure") and not k2.startswith("fea_rs::parse::lexer::lexeme::"):
            for blk in b2["blocks"]:
                for st in blk["s"]:
                    rv = st["rv"]
                    if rv.get("r") == "agg" and rv.get("adt") == "fea_rs::parse::lexer::lexeme::Kind" and rv.get("v") == "Eof":
                        others.append(k2)
    obl.append({"rule": "L6", "inst": "no other lexer function builds Kind::Eof", "ok": not others})
    for k2 in sorted(set(others)):
        findings.append({"rule": "L6", "key": f"L6|other|{norm_fn(k2)}", "msg": f"{k2} builds Kind::Eof outside next_token's end-of-input path", "loc": P.body_file_line(k2), "detail": {}})
    return findings, obl, {"l6_eof_sites": len(eof_blocks)}


def rule_l7(P, tables):
    """'Quoting does not change the output': Glyphs custom parameter values are untyped plist scalars; `value = 1;` is
    Plist::Integer and `value = "1";` is Plist::String.  Sibling agreement between the scalar accessors of `Plist`: a numeric /
    boolean accessor that inspects the variant itself must have an arm for the String variant (as as_i64 and as_f64 do), and a
    string accessor must have arms for the numeric variants - otherwise the two spellings of one value behave differently."""
    from common import norm_fn
    findings, obl = [], []
    adt = P.adts.get("glyphs_reader::plist::Plist")
    if not adt:
        raise E5Error("L7: glyphs_reader::plist::Plist not found")
    vidx = {v["name"]: str(i) for i, v in enumerate(adt["variants"])}
    n = 0
    for key, b in sorted(P.bodies.items()):
        if (b.get("impl_self") or "").split("<")[0] != "glyphs_reader::plist::Plist" or b.get("dk") != "AssocFn":
            continue
        name = key.rsplit("::", 1)[1]
        ret = b["locals"][0]
        numeric = re.match(r"std::option::Option<(i\d+|u\d+|usize|isize|f32|f64|bool)>$", ret) and name.startswith("as_")
        stringy = (name.startswith("as_") and re.match(r"std::option::Option<&?(str|std::string::String|smol_str::SmolStr)>$", ret.replace("'_ ", "").replace("&'_ ", "&"))) or \
                  (name.startswith("expect_") and re.match(r"std::result::Result<&?(str|std::string::String|smol_str::SmolStr), ", ret.replace("'_ ", "").replace("&'_ ", "&")))
        if not (numeric or stringy):
            continue
        # does it look at the variant itself?
        arms = None
        for blk in b["blocks"]:
            disc = [st["d"][0] for st in blk["s"] if st["rv"].get("r") == "discr" and st["rv"].get("p") in ([1, "*"], [1]) and len(st["d"]) == 1]
            t = blk["t"]
            if disc and t["t"] == "sw" and operand_local(t["o"]) in disc:
                arms = set(t["v"])
        if arms is None:
            obl.append({"rule": "L7", "inst": f"Plist::{name} delegates to another accessor", "ok": True})
            continue
        callers = [c for c in P.rev_edges().get(key, ()) if not (P.bodies.get(c) or {}).get("test")]
        if not callers:
            obl.append({"rule": "L7", "inst": f"Plist::{name} has no caller in the workspace (unused API); nothing depends on its variant arms", "ok": True})
            continue
        n += 1
        need = ["String"] if numeric else ["Integer", "Float"]
        missing = [v for v in need if vidx.get(v) not in arms]
        ok = not missing
        obl.append({"rule": "L7", "inst": f"Plist::{name} has an arm for {'/'.join(need)} (the other spelling of the same scalar)", "ok": ok})
        if not ok:
            what = ("a quoted value (`value = \"1\";`) is ignored while the unquoted one works" if numeric else
                    "an unquoted numeric-looking value (`value = 1.000;`, a glyph called `1`) is ignored while the quoted one works")
            findings.append({"rule": "L7", "key": f"L7|Plist::{name}|{'+'.join(missing)}", "msg": f"glyphs_reader Plist::{name} matches on the variant but has no arm for {missing}: {what}, "
                             f"so two spellings of the same source text give different fonts", "loc": P.body_file_line(key), "detail": {}})
    if n < 2:
        raise E5Error(f"L7: only {n} variant-matching scalar accessors found")
    return findings, obl, {"l7_scalar_accessors": n}


def rule_l8(P, tables):
    """'Insignificant source formatting does not change the output': the Glyphs text must reach the plist tokenizer as it is.  Any
    rewriting of the raw text with a regular expression (line anchors, character classes without whitespace) makes whitespace,
    line breaks or key order on a line significant.  Census of regex use in glyphs-reader; each site is audited or reported."""
    from common import norm_fn
    findings, obl = [], []
    allowed = {e["fn"]: e for e in tables.get("e5_tables", {}).get("regex_on_source_allowed", [])}
    n = 0
    for key, b in sorted(P.bodies.items()):
        if not key.startswith("glyphs_reader::") or "#promoted" in key:
            continue
        uses = sorted({(s["info"].get("res") or s["info"]["fn"]) for s in P.iter_sites(key) if s["kind"] == "call" and s["info"] and (s["info"].get("res") or s["info"]["fn"]).startswith("regex::")})
        if not uses:
            continue
        n += 1
        nf = norm_fn(key)
        ok = nf in allowed
        obl.append({"rule": "L8", "inst": f"{nf} applies a regular expression ({uses[0].rsplit('::', 1)[-1]}..): {(allowed.get(nf) or {}).get('reason', 'NOT AUDITED')[:80]}", "ok": ok})
        if not ok:
            findings.append({"rule": "L8", "key": f"L8|{nf}", "msg": f"{key} rewrites / matches source text with a regular expression ({', '.join(u.rsplit('::', 2)[-2] + '::' + u.rsplit('::', 1)[-1] for u in uses[:3])}) "
                             f"before or instead of the plist tokenizer: whitespace, line breaks and what else is on the line become significant, so reformatted but equal text "
                             f"can parse differently or not at all", "loc": P.body_file_line(key), "detail": {}})
    return findings, obl, {"l8_regex_functions": n}


def rule_t6(P):
    """Axis indices in the emitted tables (fvar order, avar, gvar/HVAR region axes, STAT, the AxisIndex of FeatureVariations
    conditions) all refer to ONE list: the variable axes `StaticMetadata.axes`.  `StaticMetadata.all_source_axes` also contains the
    axes the source pins to a single value; a position in that list is a different index space.  Layering clause: only front ends
    (source crates) read `all_source_axes` (to interpret locations given in terms of every source axis); fontir's transformations
    and every backend job never do, so an index into it cannot reach a table."""
    from common import norm_fn
    findings, obl = [], []
    readers = set()
    for key, b in P.bodies.items():
        if "#promoted" in key:
            continue
        hit = False
        for blk in b["blocks"]:
            for st in blk["s"]:
                rv = st["rv"]
                pls = [rv.get("p")] + [o.get("m") or o.get("c") for o in rv.get("o", [])]
                if any(pl and any(isinstance(e, str) and e.startswith("f:all_source_axes:") for e in pl) for pl in pls):
                    hit = True
            t = blk["t"]
            if t["t"] == "call":
                for o in t["a"]:
                    pl = o.get("m") or o.get("c")
                    if pl and any(isinstance(e, str) and e.startswith("f:all_source_axes:") for e in pl):
                        hit = True
        if hit:
            readers.add(b.get("root") or key)
    n = 0
    for r in sorted(readers):
        if re.match(r"fontir::ir::static_metadata::(\{impl#\d+\}::(fmt|clone|eq|new)|_)", norm_fn(r)) or "::_::" in norm_fn(r):
            continue   # derived impls and the constructor of the struct itself
        n += 1
        crate = r.split("::", 1)[0]
        ok = crate in ("glyphs2fontir", "ufo2fontir", "fontra2fontir")
        obl.append({"rule": "T6", "inst": f"{norm_fn(r)} reads StaticMetadata.all_source_axes ({'front end' if ok else 'NOT a front end'})", "ok": ok})
        if not ok:
            findings.append({"rule": "T6", "key": f"T6|{norm_fn(r)}", "msg": f"{r} reads StaticMetadata.all_source_axes outside a front end: positions in that list count the axes the source pins to a point, "
                             f"while fvar/avar/gvar/HVAR/STAT and FeatureVariations conditions index the variable axes only - an axis index taken from it is shifted or out of range "
                             f"whenever a point axis is declared before a variable one", "loc": P.body_file_line(r), "detail": {}})
    if n < 3:
        raise E5Error(f"T6: only {n} readers of all_source_axes found (field renamed?)")
    return findings, obl, {"t6_all_source_axes_readers": n}


def rule_t12(P):
    """`does not mint name ids the source already uses` (D10, repaired in 88e77c5): the allocator of font-specific name ids in
    StaticMetadata::new starts above EVERY id among the source's name records.  Structural clause: the initial value of the allocator
    is computed from the parameter map keyed by NameKey (all records), and from no map that was re-keyed by the string (such a map keeps
    one id per distinct string - which one depends on hash order - so its maximum can be below an id the source uses)."""
    from prog import def_sites, backward_slice
    findings, obl = [], []
    ks = [k for k in P.bodies if k.startswith("fontir::ir::static_metadata::") and k.endswith("::new") and "StaticMetadata" in (P.bodies[k].get("impl_self") or "")]
    if len(ks) != 1:
        raise E5Error(f"T12: StaticMetadata::new not found: {ks}")
    b = P.bodies[ks[0]]
    # the allocator: a u16 local that is captured by the registering closure and initialised from a max() over name ids
    cands = [int(i) for i, v in b.get("names", {}).items() if b["locals"][int(i)] == "u16" and "name_id" in v]
    if len(cands) != 1:
        raise E5Error(f"T12: the name id allocator variable of StaticMetadata::new was not identified (u16 locals named *name_id*: {cands})")
    sl, _ = backward_slice(b, cands, def_sites(b))
    tys = [b["locals"][x] for x in sl]
    by_key = any(("HashMap<fontir::ir::static_metadata::NameKey, std::string::String>" in t or "Keys<'_, fontir::ir::static_metadata::NameKey, std::string::String>" in t) for t in tys)
    by_string = [t for t in tys if re.search(r"(HashMap|BTreeMap|IndexMap|Values|Keys|Iter)<('_, )?std::string::String, fontir::ir::static_metadata::NameKey", t)]
    ok = by_key and not by_string
    obl.append({"rule": "T12", "inst": "the font-specific name id allocator starts from the maximum over all source name records (map keyed by NameKey), not from a map re-keyed by string", "ok": ok})
    if not ok:
        findings.append({"rule": "T12", "key": "T12|StaticMetadata::new", "msg": "StaticMetadata::new computes the start of the name id allocator "
                         + ("from a map keyed by the name STRING (" + by_string[0][:90] + "): it keeps one id per distinct string, and which one survives depends on hash order, " if by_string else "without looking at the source's name records: ")
                         + "so a minted axis/instance name id can collide with - and overwrite - a record the source already uses (ids differ from run to run)",
                         "loc": P.body_file_line(ks[0]), "detail": {}})
    return findings, obl, {"t12_allocator_slice_locals": len(sl)}


def rule_t11(P):
    """Glyph ids in every emitted table index ONE list: the final `glyph_order` (after `.notdef` synthesis, non-export pruning and
    bracket glyphs).  The front ends also publish a *preliminary* order that can differ in length and positions.  Layering clause:
    the preliminary order is touched only by the front-end jobs that write it, by the glyph-order job that turns it into the final
    order, by the scheduler (which diffs the two to create jobs) and by the context plumbing; a backend job or any other fontir
    job never reads it, so a glyph id / glyph count taken from it cannot reach a table."""
    from common import norm_fn
    findings, obl = [], []
    FIELD = "f:preliminary_glyph_order:"
    touchers = set()
    for key, b in P.bodies.items():
        if "#promoted" in key:
            continue
        hit = False
        for blk in b["blocks"]:
            for st in blk["s"]:
                rv = st["rv"]
                pls = [rv.get("p")] + [o.get("m") or o.get("c") for o in rv.get("o", [])]
                if any(pl and any(isinstance(e, str) and e.startswith(FIELD) for e in pl) for pl in pls):
                    hit = True
            t = blk["t"]
            if t["t"] == "call":
                for o in t["a"]:
                    pl = o.get("m") or o.get("c")
                    if pl and any(isinstance(e, str) and e.startswith(FIELD) for e in pl):
                        hit = True
        if hit:
            touchers.add(b.get("root") or key)
    n = 0
    for r in sorted(touchers):
        nf = norm_fn(r)
        crate = r.split("::", 1)[0]
        why = None
        if crate in ("glyphs2fontir", "ufo2fontir", "fontra2fontir"):
            why = "front end (writes it)"
        elif nf.startswith("fontir::orchestration::"):
            why = "context plumbing"
        elif nf.startswith("fontir::glyph::") and P.is_work_exec_impl(r) and _touches_field(P, r, "f:glyph_order:"):
            why = "the glyph-order job (also touches the final order)"
        elif re.match(r"fontc::workload::\{impl#\d+\}::handle_success$", nf):
            why = "scheduler: diffs preliminary and final order to create glyph jobs"
        n += 1
        ok = why is not None
        obl.append({"rule": "T11", "inst": f"{nf} touches Context.preliminary_glyph_order ({why or 'NOT allowed'})", "ok": ok})
        if not ok:
            findings.append({"rule": "T11", "key": f"T11|{nf}", "msg": f"{r} reads the PRELIMINARY glyph order: glyph ids and the glyph count of every emitted table refer to the final "
                             f"order (with a synthesized .notdef, without non-export glyphs, with bracket glyphs); a position or length taken from the preliminary list "
                             f"disagrees with glyf/loca/hmtx/maxp whenever the two differ", "loc": P.body_file_line(r), "detail": {}})
    if n < 5:
        raise E5Error(f"T11: only {n} functions touch preliminary_glyph_order (field renamed?)")
    return findings, obl, {"t11_preliminary_order_touchers": n}


def _touches_field(P, key, field):
    b = P.bodies.get(key)
    if not b:
        return False
    for blk in b["blocks"]:
        for st in blk["s"]:
            rv = st["rv"]
            pls = [rv.get("p")] + [o.get("m") or o.get("c") for o in rv.get("o", [])]
            if any(pl and any(isinstance(e, str) and e.startswith(field) for e in pl) for pl in pls):
                return True
        t = blk["t"]
        if t["t"] == "call":
            for o in t["a"]:
                pl = o.get("m") or o.get("c")
                if pl and any(isinstance(e, str) and e.startswith(field) for e in pl):
                    return True
    return False


def rule_n5(P):
    """The name table is the union of the records derived from the source and the records the feature file declares, where a
    feature-file record replaces a derived one only if platform, encoding, language and name id are all equal (one map keyed by
    all four).  Structural clause for fontbe::name::merge_name_records: every derived record reaches that map - between the
    `records` parameter and the keyed collect there is no adapter that can drop elements (filter, filter_map, skip, take, ..)."""
    from common import norm_fn
    findings, obl = [], []
    fns = [k for k in P.bodies if k == "fontbe::name::merge_name_records"]
    if len(fns) != 1:
        raise E5Error("N5: fontbe::name::merge_name_records not found")
    key = fns[0]
    b = P.bodies[key]
    DROPPING = {"filter", "filter_map", "skip", "skip_while", "take", "take_while", "step_by", "retain", "dedup", "dedup_by", "dedup_by_key", "truncate", "drain", "flat_map", "nth", "last", "find"}
    PASS = {"into_iter", "iter", "chain", "map", "cloned", "copied", "collect", "into", "from_iter", "extend", "rev", "enumerate", "inspect", "by_ref", "peekable"}
    cur = {1}
    seen_calls = []
    reached_collect = False
    changed = True
    while changed:
        changed = False
        for blk in b["blocks"]:
            if blk["cl"]:
                continue
            for st in blk["s"]:
                rv = st["rv"]
                ops = [(o.get("m") or o.get("c") or [None])[0] for o in rv.get("o", [])] + ([rv["p"][0]] if rv.get("p") else [])
                if len(st["d"]) == 1 and st["d"][0] not in cur and rv.get("r") in ("use", "ref", "cast") and any(x in cur for x in ops):
                    cur.add(st["d"][0])
                    changed = True
            t = blk["t"]
            if t["t"] == "call" and t["a"]:
                a0 = (t["a"][0].get("m") or t["a"][0].get("c") or [None])[0]
                if a0 in cur:
                    nm = ((t["f"].get("k") or {}).get("fn") or "").rsplit("::", 1)[-1]
                    if (blk["t"]["l"], nm) not in seen_calls:
                        seen_calls.append((blk["t"]["l"], nm))
                    if nm in ("collect", "from_iter", "extend"):
                        reached_collect = True
                    elif len(t["d"]) == 1 and t["d"][0] not in cur:
                        cur.add(t["d"][0])
                        changed = True
    dropping = [(l, n) for l, n in seen_calls if n in DROPPING]
    unknown = [(l, n) for l, n in seen_calls if n not in DROPPING and n not in PASS]
    ok = reached_collect and not dropping and not unknown
    obl.append({"rule": "N5", "inst": f"merge_name_records: every derived record reaches the keyed merge ({' -> '.join(n for _, n in seen_calls)})", "ok": ok})
    if not ok:
        what = (f"passes them through {dropping[0][1]}()" if dropping else (f"passes them through {unknown[0][1]}(), which this rule does not know" if unknown else "never collects them"))
        findings.append({"rule": "N5", "key": f"N5|{norm_fn(key)}|{(dropping or unknown or [(0, 'no-collect')])[0][1]}",
                         "msg": f"{key} {what} before merging the derived name records with the feature file's: a derived record can be dropped although no feature-file record has the same "
                                f"platform/encoding/language/name id (e.g. the English family or style name disappears because the feature file sets the same name id for another language), "
                                f"and fvar/STAT then refer to a name that is not the source's", "loc": P.site_loc(key, (dropping or unknown or [(b['blocks'][0]['t']['l'], '')])[0][0]), "detail": {}})
    return findings, obl, {"n5_merge_chain": [n for _, n in seen_calls]}


def rule_p6(P, tables):
    """'Every intermediate item reads back equal': derived Serialize/Deserialize are structural (every field, in order, both ways).
    A hand-written pair is a second, independent description of the type's persisted form and is where a Vec becomes a map, a float
    loses precision or a variant collapses.  Census: hand-written serde impls on types of the IR/BE crates are listed with the
    reason the pair round-trips; a new one is a violation until it has been read."""
    from common import norm_fn
    findings, obl = [], []
    allowed = {e["type"]: e for e in tables.get("e5_tables", {}).get("handwritten_serde_allowed", [])}
    seen = {}
    n_derived = 0
    for im in P.impls:
        tr = im.get("trait") or ""
        if not (tr.endswith("::Serialize") or tr.endswith("::Deserialize")) or "serde" not in tr:
            continue
        if im.get("crate") not in ("fontir", "fontbe", "fontdrasil"):
            continue
        if im.get("exp"):
            n_derived += 1
            continue
        ty = (im.get("self") or "").split("<")[0]
        seen.setdefault(ty, []).append((tr.rsplit("::", 1)[-1], im.get("span")))
    for ty, impls in sorted(seen.items()):
        ok = ty in allowed
        obl.append({"rule": "P6", "inst": f"{ty} has hand-written {'/'.join(sorted({k for k, _ in impls}))}: {(allowed.get(ty) or {}).get('reason', 'NOT AUDITED')[:90]}", "ok": ok})
        if not ok:
            findings.append({"rule": "P6", "key": f"P6|{ty}", "msg": f"{ty} is persisted through a hand-written {'/'.join(sorted({k for k, _ in impls}))} impl ({impls[0][1]}) that nobody has checked for "
                             f"round-tripping: unlike a derive it can merge, reorder, round or drop parts of the value (a Vec written as a map loses repeated keys), so the item "
                             f"read back from the build directory need not equal the one in memory", "loc": impls[0][1] or "", "detail": {}})
    for ty in allowed:
        if ty not in seen:
            findings.append({"rule": "P6", "key": f"P6|stale|{ty}", "msg": f"audited hand-written serde entry for {ty} matches nothing any more; remove it", "loc": "tables/e5_tables.json", "detail": {}})
    if n_derived < 40:
        raise E5Error(f"P6: only {n_derived} derived serde impls seen in the IR/BE crates")
    return findings, obl, {"p6_handwritten_serde_types": len(seen), "p6_derived_serde_impls": n_derived}


def rule_p7(P):
    """'Turning on emission of intermediate representation changes nothing about the font': Persistable::write unwraps the
    serializer's result, so a persisted type whose serializer is PARTIAL (fails for some values that the compiler otherwise handles)
    makes --emit-ir panic where the plain build succeeds.  serde's impls for PathBuf/Path/OsString reject non-UTF-8 contents and the
    one for SystemTime rejects times before the epoch.  Census: every field of a serde-derived IR/BE type with such a type."""
    findings, obl = [], []
    PART = re.compile(r"std::path::PathBuf|std::path::Path\b|std::ffi::OsString|std::ffi::OsStr\b|std::time::SystemTime")
    ser = set()
    for im in P.impls:
        tr = im.get("trait") or ""
        if tr.endswith("::Serialize") and "serde" in tr and im.get("crate") in ("fontir", "fontbe", "fontdrasil") and im.get("exp"):
            ser.add((im.get("self") or "").split("<")[0])
    n_fields = 0
    for k in sorted(ser):
        a = P.adts.get(k)
        if not a:
            continue
        for v in a.get("variants") or []:
            for f in v["fields"]:
                n_fields += 1
                if any("skip" in str(x) for x in f.get("attrs") or []):
                    continue
                if PART.search(f["ty"]):
                    vn = f"{v['name']}." if a.get("kind") == "Enum" else ""
                    obl.append({"rule": "P7", "inst": f"{k}::{vn}{f['name']}: {f['ty']} is written by a serializer that fails on some values", "ok": False})
                    findings.append({"rule": "P7", "key": f"P7|{k}::{vn}{f['name']}", "msg": f"{k}::{vn}{f['name']} ({f['ty']}) is persisted with serde's impl for that type, which returns an error for "
                                     f"a non-UTF-8 path / pre-epoch time; Persistable::write unwraps it, so the same source that compiles without --emit-ir panics with it", "loc": a.get("span") or "", "detail": {}})
    if len(ser) < 40 or n_fields < 150:
        raise E5Error(f"P7: only {len(ser)} serde-derived types / {n_fields} fields seen in the IR/BE crates")
    obl.append({"rule": "P7", "inst": f"{n_fields} fields of {len(ser)} serde-derived IR/BE types examined for partial serializers", "ok": True})
    return findings, obl, {"p7_serde_types": len(ser), "p7_fields": n_fields}


def rule_t7(P):
    """'ids below 256 are used only where the specification allows': fvar and STAT find the name id of an axis or instance by
    string, among ALL ids that carry that string (StaticMetadata::reverse_names), so the selecting predicate is what keeps a
    spec-reserved id (family name 1, full name 4, ..) out of the tables.  For every predicate closure over NameId in the backend
    (fontbe) this rule enumerates the paths that return true and requires each to have established either
    `candidate >= NameId::new(k)` with k >= 256, or `candidate == C` for a reserved constant C that the allocator
    (StaticMetadata::new) also treats as reusable - the two sides must agree, and the agreed set must be what the fvar
    specification allows for an instance (2 and 17)."""
    from common import norm_fn
    SPEC_ALLOWED = {2, 17}     # fvar InstanceRecord.subfamilyNameID: "2, 17, or 256..32767"
    findings, obl = [], []

    def promoted_scalar(owner, idx):
        pb = P.bodies.get(f"{owner}#promoted{idx}")
        if not pb:
            return None
        for blk in pb["blocks"]:
            for st in blk["s"]:
                for o in st["rv"].get("o", []):
                    k = o.get("k")
                    if k and "scalar" in k and "NameId" in k.get("ty", ""):
                        return int(k["scalar"]), k.get("uneval")
        return None

    # --- the allocator's side: reserved constants StaticMetadata::new compares a source name key against
    alloc = set()
    alloc_bodies = [k for k in P.bodies if norm_fn(k).startswith("fontir::ir::static_metadata::{impl}::new") or
                    re.match(r"fontir::ir::static_metadata::\{impl#\d+\}::new($|::|#)", k)]
    for k in alloc_bodies:
        if "#promoted" not in k:
            continue
        owner, idx = k.rsplit("#promoted", 1)
        ps = promoted_scalar(owner, idx)
        if ps and ps[0] < 256:
            alloc.add(ps[0])
    if not alloc:
        raise E5Error("T7: StaticMetadata::new compares against no reserved NameId constant (anchor moved?)")
    ok = alloc == SPEC_ALLOWED
    obl.append({"rule": "T7", "inst": f"StaticMetadata::new lets the default instance reuse exactly the reserved ids {sorted(alloc)} (specification: {sorted(SPEC_ALLOWED)})", "ok": ok})
    if not ok:
        findings.append({"rule": "T7", "key": "T7|alloc|" + ",".join(map(str, sorted(alloc))),
                         "msg": f"StaticMetadata::new skips registering a font-specific name when the default instance's name equals the record with id {sorted(alloc)}; the fvar specification "
                                f"allows only {sorted(SPEC_ALLOWED)} below 256 for subfamilyNameID", "loc": P.body_file_line(alloc_bodies[0].split('#')[0]), "detail": {}})

    # --- the selecting side
    preds = []
    for key, b in P.bodies.items():
        if b.get("crate") != "fontbe" or b.get("dk") != "Closure" or "#promoted" in key:
            continue
        lt = b.get("locals") or []
        if len(lt) > 2 and lt[0] == "bool" and re.fullmatch(r"&+write_fonts::font_types::NameId", lt[2]) and b.get("argc") == 2:
            preds.append(key)
    for key in sorted(preds):
        b = P.bodies[key]
        blocks = b["blocks"]
        upv = {i: nm for i, (nm, _) in enumerate(b.get("upvars") or [])}
        defs = {}
        for blk in blocks:
            for st in blk["s"]:
                if len(st["d"]) == 1:
                    defs.setdefault(st["d"][0], []).append(st["rv"])

        def origin(l, depth=0):
            """('cand',) | ('upvar', name) | ('const', scalar) | None"""
            if l == 2:
                return ("cand",)
            ds = defs.get(l)
            if not ds or len(ds) != 1 or depth > 12:
                return None
            rv = ds[0]
            if rv.get("r") in ("use", "ref", "cast"):
                srcs = [o for o in rv.get("o", [])]
                if rv.get("p"):
                    pl = rv["p"]
                elif srcs and (srcs[0].get("m") or srcs[0].get("c")):
                    pl = srcs[0].get("m") or srcs[0].get("c")
                elif srcs and srcs[0].get("k"):
                    k = srcs[0]["k"]
                    if "promoted" in k:
                        ps = promoted_scalar(k.get("uneval"), k["promoted"])
                        return ("const", ps[0]) if ps else None
                    if "scalar" in k:
                        return ("const", int(k["scalar"]))
                    return None
                else:
                    return None
                if pl[0] == 1:
                    for e in pl[1:]:
                        m = isinstance(e, str) and re.match(r"f:(\d+):", e)
                        if m:
                            return ("upvar", upv.get(int(m.group(1))))
                    return None
                if any(isinstance(e, str) and e.startswith("f:") for e in pl[1:]):
                    return None
                return origin(pl[0], depth + 1)
            return None

        def upvar_value(name):
            """integer the captured NameId was built from, looked up by variable name in the enclosing bodies"""
            cur = b.get("parent")
            while cur:
                pb = P.bodies.get(cur)
                if not pb:
                    return None
                for l, nm in (pb.get("names") or {}).items():
                    if nm == name:
                        for blk in pb["blocks"]:
                            t = blk["t"]
                            if t["t"] == "call" and t.get("d") == [int(l)] and re.search(r"name_id::\{impl#\d+\}::new$", (t["f"].get("k") or {}).get("fn", "")):
                                k = t["a"][0].get("k") if t["a"] else None
                                if k and "int" in k:
                                    return int(k["int"])
                        return None
                cur = pb.get("parent")
            return None

        # classify every bool-producing comparison
        cond = {}
        for bi, blk in enumerate(blocks):
            t = blk["t"]
            if t["t"] != "call" or len(t.get("d") or []) != 1:
                continue
            fn = (t["f"].get("k") or {}).get("fn", "")
            nm = fn.rsplit("::", 1)[-1]
            if t.get("dty") != "bool" or len(t["a"]) != 2:
                continue
            oa = [origin((a.get("m") or a.get("c") or [None])[0]) if (a.get("m") or a.get("c")) else None for a in t["a"]]
            verdict = ("other", f"{nm}(..)")
            if nm in ("ge", "gt", "le", "lt") and "PartialOrd" in fn:
                cand_i = 0 if nm in ("ge", "gt") else 1
                th = oa[1 - cand_i]
                if oa[cand_i] == ("cand",) and th:
                    v = upvar_value(th[1]) if th[0] == "upvar" else (th[1] if th[0] == "const" else None)
                    need = 256 if nm in ("ge", "le") else 255
                    verdict = ("just", f"id {'>=' if nm in ('ge','le') else '>'} {v}") if v is not None and v >= need else ("other", f"id compared against {v}")
            elif nm == "eq" and "PartialEq" in fn:
                for i in (0, 1):
                    if oa[i] == ("cand",) and oa[1 - i] and oa[1 - i][0] == "const":
                        v = oa[1 - i][1]
                        verdict = ("just", f"id == {v}") if (v >= 256 or (v in alloc and v in SPEC_ALLOWED)) else ("bad", f"id == {v}")
            cond[t["d"][0]] = verdict

        # enumerate paths; state = (block, justified, value of _0, known bools)
        bad_paths, n_paths = [], [0]

        def val_of(l, vals):
            return vals.get(l, cond.get(l))

        def walk(bi, just, vals, trail, seen):
            if n_paths[0] > 4096 or (bi, just) in seen:
                return
            seen = seen | {(bi, just)}
            blk = blocks[bi]
            vals = dict(vals)
            for st in blk["s"]:
                if len(st["d"]) != 1:
                    continue
                rv = st["rv"]
                o = (rv.get("o") or [None])[0]
                if rv.get("r") == "use" and o and o.get("k") and o["k"].get("ty") == "bool" and "int" in o["k"]:
                    vals[st["d"][0]] = ("lit", o["k"]["int"] == "1")
                elif rv.get("r") == "use" and o and (o.get("m") or o.get("c")) and len(o.get("m") or o.get("c")) == 1:
                    s = (o.get("m") or o.get("c"))[0]
                    if val_of(s, vals) is not None:
                        vals[st["d"][0]] = val_of(s, vals)
                    else:
                        vals.pop(st["d"][0], None)
                else:
                    vals.pop(st["d"][0], None)
            t = blk["t"]
            if t["t"] == "ret":
                n_paths[0] += 1
                v = val_of(0, vals)
                if v == ("lit", False):
                    return
                if just or (v and v[0] == "just"):
                    return
                bad_paths.append((trail, v))
                return
            if t["t"] == "call":
                for d in t.get("d") or []:
                    vals.pop(d, None)
                if t.get("to"):
                    walk(t["to"][0], just, vals, trail, seen)
                return
            if t["t"] == "sw":
                pl = t["o"].get("m") or t["o"].get("c")
                l = pl[0] if pl and len(pl) == 1 else None
                v = val_of(l, vals) if l is not None else None
                if t.get("oty") == "bool" and t.get("v") == ["0"]:
                    what = v[1] if v and v[0] != "lit" else (origin(l) or ("?",))
                    walk(t["to"][0], just, vals, trail + [f"not({what})"], seen)
                    walk(t["to"][1], just or bool(v and v[0] == "just"), vals, trail + [f"{what}"], seen)
                    return
                for to in t["to"]:
                    walk(to, just, vals, trail + ["?"], seen)
                return
            for to in t.get("to") or []:
                if not blocks[to].get("cl"):
                    walk(to, just, vals, trail, seen)

        walk(0, False, {}, [], frozenset())
        ok = not bad_paths and n_paths[0] > 0
        obl.append({"rule": "T7", "inst": f"{norm_fn(key)}: every accepting path of the NameId predicate establishes id >= 256 or id in {sorted(alloc & SPEC_ALLOWED)} "
                                          f"({n_paths[0]} paths; tests: {sorted(set(v[1] for v in cond.values()))})", "ok": ok})
        if not ok:
            trail, v = bad_paths[0] if bad_paths else ([], None)
            findings.append({"rule": "T7", "key": f"T7|{norm_fn(key)}",
                             "msg": f"{key} accepts a name id on the path [{' , '.join(str(x) for x in trail)}] (returning {v[1] if v else 'true'}) without having established that the id is font-specific "
                                    f"(>= 256) or one of the reserved ids the allocator and the specification allow ({sorted(alloc & SPEC_ALLOWED)}): when the looked-up string also sits in a lower "
                                    f"reserved record (e.g. an instance named like the family, id 1) that id is written into the table", "loc": P.body_file_line(key), "detail": {"paths": n_paths[0]}})
    # --- who may ask for a reserved id: "The values 2 or 17 should only be used if the named instance corresponds to the font's
    # default instance" - every caller of a lookup closure with a bool switch passes literal false or `location == default location`
    n_callers = 0
    for key in sorted(preds):
        b = P.bodies[key]
        parent = b.get("parent")
        pb = P.bodies.get(parent) or {}
        if pb.get("dk") != "Closure" or pb.get("argc", 0) < 2 or "bool" not in (pb.get("locals") or [""])[2:4]:
            continue
        for ck, cb in P.bodies.items():
            if cb.get("crate") != "fontbe" or "#promoted" in ck:
                continue
            for blk in cb["blocks"]:
                t = blk["t"]
                if t["t"] != "call" or (t["f"].get("k") or {}).get("res") != parent or len(t["a"]) != 2:
                    continue
                n_callers += 1
                tl = (t["a"][1].get("m") or t["a"][1].get("c") or [None])[0]
                verdict = None
                for blk2 in cb["blocks"]:
                    for st in blk2["s"]:
                        if st["d"] == [tl] and st["rv"].get("r") == "agg" and st["rv"].get("ak") == "tuple":
                            o = st["rv"]["o"][-1]
                            if o.get("k") and o["k"].get("ty") == "bool":
                                verdict = "literal false" if o["k"].get("int") == "0" else "literal TRUE"
                            else:
                                bl = (o.get("m") or o.get("c") or [None])[0]
                                for blk3 in cb["blocks"]:
                                    t3 = blk3["t"]
                                    if t3["t"] == "call" and t3.get("d") == [bl]:
                                        k3 = t3["f"].get("k") or {}
                                        if k3.get("fn", "").endswith("PartialEq::eq") and any("UserLocation" in g or "Location<" in g for g in k3.get("ga", [])):
                                            verdict = "location == default location"
                                        else:
                                            verdict = f"result of {k3.get('fn')}"
                ok = verdict in ("literal false", "location == default location")
                obl.append({"rule": "T7", "inst": f"{norm_fn(ck)} asks {norm_fn(parent)} for a reserved id only for the default instance ({verdict})", "ok": ok})
                if not ok:
                    findings.append({"rule": "T7", "key": f"T7|caller|{norm_fn(ck)}|{verdict}",
                                     "msg": f"{ck} allows {parent} to return a spec-reserved name id (2/17) under the condition '{verdict}'; the fvar specification allows that only for the instance at "
                                            f"the default location (and never for axis or PostScript names)", "loc": P.site_loc(ck, t["l"]), "detail": {}})
    if len(preds) < 2:
        raise E5Error(f"T7: only {len(preds)} NameId predicates found in fontbe (fvar and STAT lookups moved?)")
    if n_callers < 3:
        raise E5Error(f"T7: only {n_callers} callers of the fvar name lookup found (expected axis, instance and PostScript name lookups)")
    return findings, obl, {"t7_name_id_predicates": len(preds), "t7_alloc_reserved": sorted(alloc), "t7_lookup_callers": n_callers}


def rule_t8(P):
    """'Every name id used by fvar has a NON-EMPTY record': StaticMetadata::new registers a name (id >= 256) for each named
    instance's name and PostScript name, which arrive from the front ends as arbitrary strings.  Sanitiser-before-sink rule inside
    StaticMetadata::new: each registration whose string comes from a field of NamedInstance is preceded (on the CFG: the test can
    reach the registration and never the other way round) by an emptiness test of that field - a direct `is_empty` call or a call
    taking a closure that calls it (retain, is_some_and, filter, ..)."""
    from common import norm_fn
    from prog import CFG
    findings, obl = [], []
    roots = [k for k, b in P.bodies.items() if re.fullmatch(r"fontir::ir::static_metadata::\{impl#\d+\}::new", k)
             and (b.get("impl_self") or "").endswith("::StaticMetadata")]
    if len(roots) != 1:
        raise E5Error(f"T8: StaticMetadata::new not found ({roots})")
    root = roots[0]
    b = P.bodies[root]
    blocks = b["blocks"]
    fam = [k for k in P.bodies if k.startswith(root + "::") and "#promoted" not in k]

    def calls_in(k):
        out = []
        for kk in [k] + [x for x in fam if x.startswith(k + "::")]:
            for blk in P.bodies[kk]["blocks"]:
                t = blk["t"]
                if t["t"] == "call":
                    out.append((t["f"].get("k") or {}))
        return out

    def is_empty_call(k):
        return re.search(r"(alloc::string::\{impl#\d+\}|core::str::\{impl#\d+\}|str)::is_empty$", k.get("fn", "") or "") is not None

    FIELD = re.compile(r"f:(\w+):fontir::ir::static_metadata::NamedInstance$")

    def fields_in_place(pl):
        return {m.group(1) for e in (pl or [])[1:] if isinstance(e, str) for m in [FIELD.match(e)] if m}

    def mentions(k):
        out = set()
        for kk in [k] + [x for x in fam if x.startswith(k + "::")]:
            for blk in P.bodies[kk]["blocks"]:
                for st in blk["s"]:
                    rv = st["rv"]
                    out |= fields_in_place(rv.get("p"))
                    for o in rv.get("o", []):
                        out |= fields_in_place(o.get("m") or o.get("c"))
                if blk["t"]["t"] == "call":
                    for o in blk["t"]["a"]:
                        out |= fields_in_place(o.get("m") or o.get("c"))
        return out

    # defs of each local in the root
    defs = defaultdict(list)
    for bi, blk in enumerate(blocks):
        if blk.get("cl"):
            continue
        for st in blk["s"]:
            if st["d"]:
                defs[st["d"][0]].append(("s", st["rv"]))
        t = blk["t"]
        if t["t"] == "call" and t.get("d"):
            defs[t["d"][0]].append(("c", t))

    def slice_fields(l, depth=10):
        """fields of NamedInstance the value of local l is computed from (backward slice through defs, bounded)"""
        out, seen, frontier = set(), {l}, [l]
        for _ in range(depth):
            nxt = []
            for x in frontier:
                for kind, d in defs.get(x, []):
                    places = []
                    if kind == "s":
                        if d.get("p"):
                            places.append(d["p"])
                        places += [o.get("m") or o.get("c") for o in d.get("o", [])]
                    else:
                        places += [o.get("m") or o.get("c") for o in d["a"]]
                    for pl in places:
                        if not pl:
                            continue
                        out |= fields_in_place(pl)
                        if pl[0] not in seen:
                            seen.add(pl[0])
                            nxt.append(pl[0])
            frontier = nxt
        return out

    def result_depends_on_is_empty(k):
        """the closure's return value is computed from an is_empty result (directly, negated, or by branching on it to different constants)"""
        kb = P.bodies[k]
        kblocks = kb["blocks"]
        derived = set()
        for blk in kblocks:
            t = blk["t"]
            if t["t"] == "call" and is_empty_call(t["f"].get("k") or {}) and t.get("d"):
                derived.add(t["d"][0])
        if not derived:
            return False
        changed = True
        while changed:
            changed = False
            for blk in kblocks:
                for st in blk["s"]:
                    if len(st["d"]) == 1 and st["d"][0] not in derived and st["rv"].get("r") in ("use", "un", "unop", "not", "cast"):
                        ops = [(o.get("m") or o.get("c") or [None])[0] for o in st["rv"].get("o", [])]
                        if any(x in derived for x in ops):
                            derived.add(st["d"][0])
                            changed = True
        if 0 in derived:
            return True

        def consts_from(bi, seen):
            """constants assigned to _0 on paths from block bi to return (last assignment wins per path; approximated by first seen)"""
            out = set()
            stack = [bi]
            while stack:
                x = stack.pop()
                if x in seen:
                    continue
                seen.add(x)
                hit = None
                for st in kblocks[x]["s"]:
                    if st["d"] == [0]:
                        o = (st["rv"].get("o") or [{}])[0]
                        hit = (o.get("k") or {}).get("int", "?")
                if hit is not None:
                    out.add(hit)
                    continue
                stack.extend(kblocks[x]["t"].get("to") or [])
            return out
        for blk in kblocks:
            t = blk["t"]
            if t["t"] == "sw" and (t["o"].get("m") or t["o"].get("c") or [None])[0] in derived and len(t["to"]) == 2:
                a, c = consts_from(t["to"][0], set()), consts_from(t["to"][1], set())
                if a and c and a != c:
                    return True
        return False

    reg = [k for k in fam if any(re.search(r"hash::map::\{impl#\d+\}::(or_insert_with|or_insert|insert)$", c.get("fn", "") or "") and
                                 any("NameKey" in g for g in c.get("ga", [])) for c in calls_in(k)) and P.bodies[k].get("parent") == root]
    if len(reg) != 1:
        raise E5Error(f"T8: the registering closure of StaticMetadata::new was not identified ({reg})")
    reg = reg[0]
    closure_of = {}
    for blk in blocks:
        for st in blk["s"]:
            if st["rv"].get("r") == "agg" and st["rv"].get("ak") == "closure" and st["d"]:
                closure_of[st["d"][0]] = st["rv"]["def"]
    sinks, sanit = [], []
    for bi, blk in enumerate(blocks):
        t = blk["t"]
        if blk.get("cl") or t["t"] != "call":
            continue
        k = t["f"].get("k") or {}
        arg_locals = [(o.get("m") or o.get("c") or [None])[0] for o in t["a"]]
        if k.get("res") == reg:
            fl = set()
            for a in arg_locals[1:]:
                fl |= slice_fields(a)
            sinks.append((bi, t["l"], fl))
            continue
        if is_empty_call(k):
            fl = set()
            for a in arg_locals:
                fl |= slice_fields(a)
            if fl:
                sanit.append((bi, t["l"], fl, "is_empty"))
            continue
        cl = [closure_of[a] for a in arg_locals if a in closure_of]
        if cl and result_depends_on_is_empty(cl[0]):
            fl = mentions(cl[0])
            for a in arg_locals:
                if a not in closure_of:
                    fl |= slice_fields(a)
            if fl:
                sanit.append((bi, t["l"], fl, (k.get("fn") or "").rsplit("::", 1)[-1]))
    if len(sinks) < 3:
        raise E5Error(f"T8: only {len(sinks)} registration sites found in StaticMetadata::new (expected axis, instance name, PostScript name)")
    cfg = CFG(b)
    n_cov = 0
    for bi, line, fl in sinks:
        if not fl:
            obl.append({"rule": "T8", "inst": f"registration at static_metadata.rs:{line}: string not taken from a NamedInstance field (axis label; not covered by this rule)", "ok": True})
            continue
        n_cov += 1
        after = cfg.reachable_from(bi)
        for f in sorted(fl):
            good = [s for s in sanit if f in s[2] and bi in cfg.reachable_from(s[0]) and s[0] not in after]
            ok = bool(good)
            obl.append({"rule": "T8", "inst": f"registration of NamedInstance.{f}: an emptiness test of that field precedes it ({', '.join(f'{s[3]} at line {s[1]}' for s in good) or 'none'})", "ok": ok})
            if not ok:
                findings.append({"rule": "T8", "key": f"T8|{norm_fn(root)}|{f}",
                                 "msg": f"StaticMetadata::new registers NamedInstance.{f} as a name record without an emptiness test of that field before the registration: an instance with "
                                        f"{f} == \"\" (stylename=\"\" in a designspace, `name = \"\";` in a Glyphs instance) gets a font-specific name id whose record is the empty string, "
                                        f"and fvar refers to it", "loc": P.site_loc(root, line), "detail": {}})
    if n_cov < 2:
        raise E5Error(f"T8: only {n_cov} registrations traced to NamedInstance fields")
    return findings, obl, {"t8_registrations": len(sinks), "t8_emptiness_tests": len(sanit)}


def rule_t9(P):
    """'fully parseable by an independent reader': post format 2 stores each glyph name as a Pascal string and write-fonts' PString
    writes `len as u8` followed by ALL the bytes, so a name longer than 255 bytes shifts every later name (external-crate narrowing,
    outside E6's census).  Guard-dominates-sink rule: every call of Post::new_v2 in the backend is dominated by a call of a workspace
    function that compares a `str::len` against a constant <= 255 and whose Result is examined (`?`)."""
    from common import norm_fn
    findings, obl = [], []

    def family(k):
        return [k] + [x for x in P.bodies if x.startswith(k + "::") and "#promoted" not in x]

    def is_len_guard(k):
        if k not in P.bodies or P.bodies[k].get("crate") not in ("fontbe", "fontc", "fontir", "fontdrasil"):
            return False
        has_len = has_cmp = False
        for kk in family(k):
            kb = P.bodies[kk]
            small = set()
            for blk in kb["blocks"]:
                for st in blk["s"]:
                    rv = st["rv"]
                    for o in rv.get("o", []):
                        c = o.get("k") or {}
                        if "int" in c and c["int"].lstrip("-").isdigit() and 0 < int(c["int"]) <= 255 and rv.get("r") in ("use", "cast") and st["d"]:
                            small.add(st["d"][0])
            lens = set()
            for blk in kb["blocks"]:
                t = blk["t"]
                if t["t"] == "call" and re.search(r"(core::str::\{impl#\d+\}|alloc::string::\{impl#\d+\})::len$", (t["f"].get("k") or {}).get("fn", "") or "") and t.get("d"):
                    lens.add(t["d"][0])
                    has_len = True
            for blk in kb["blocks"]:
                for st in blk["s"]:
                    rv = st["rv"]
                    if rv.get("r") == "bin" and rv.get("op") in ("Gt", "Ge", "Lt", "Le"):
                        ops = rv.get("o", [])
                        loc = [(o.get("m") or o.get("c") or [None])[0] for o in ops]
                        cons = [int((o.get("k") or {}).get("int", "-1")) if (o.get("k") or {}).get("int", "x").isdigit() else None for o in ops]
                        if any(l in lens for l in loc) and (any(l in small for l in loc) or any(c is not None and 0 < c <= 256 for c in cons)):
                            has_cmp = True
        return has_len and has_cmp

    n = 0
    for key, b in sorted(P.bodies.items()):
        if "#promoted" in key:
            continue
        blocks = b["blocks"]
        sites = [bi for bi, blk in enumerate(blocks) if blk["t"]["t"] == "call" and not blk.get("cl") and
                 re.search(r"write_fonts::tables::post::\{impl#\d+\}::new_v2$", (blk["t"]["f"].get("k") or {}).get("res") or (blk["t"]["f"].get("k") or {}).get("fn") or "")]
        if not sites:
            continue
        if b.get("crate") not in ("fontbe", "fontc"):
            obl.append({"rule": "T9", "inst": f"{norm_fn(key)} builds a post table outside the compiler's backend (fea-rs's own command-line tool); not in scope", "ok": True})
            continue
        cfg = CFG(b)
        dom = cfg.dominators()
        for bi in sites:
            n += 1
            guards = []
            for gi in dom.get(bi, ()):
                t = blocks[gi]["t"]
                if gi == bi or t["t"] != "call":
                    continue
                callee = (t["f"].get("k") or {}).get("res")
                if callee and is_len_guard(callee):
                    d = (t.get("d") or [None])[0]
                    examined = any(bt["t"]["t"] == "call" and any((o.get("m") or o.get("c") or [None])[0] == d for o in bt["t"]["a"]) and
                                   re.search(r"Try::branch$|::branch$", (bt["t"]["f"].get("k") or {}).get("fn", "") or "") for bt in blocks) or \
                        any(st["rv"].get("r") == "discr" and (st["rv"].get("p") or [None])[0] == d for bt in blocks for st in bt["s"])
                    if examined:
                        guards.append((callee, t["l"]))
            ok = bool(guards)
            obl.append({"rule": "T9", "inst": f"{norm_fn(key)} line {blocks[bi]['t']['l']}: Post::new_v2 is dominated by a length check of the names "
                                              f"({', '.join(norm_fn(g) + ' at line ' + str(l) for g, l in guards) or 'none'})", "ok": ok})
            if not ok:
                findings.append({"rule": "T9", "key": f"T9|{norm_fn(key)}|{sites.index(bi)}",
                                 "msg": f"{key} builds the post table with Post::new_v2 without a dominating check that every glyph name fits a Pascal string: write-fonts writes `len as u8` and then "
                                        f"all the bytes, so one glyph name longer than 255 bytes (a 300-byte name: reproduced, exit 0) makes every later name unreadable", "loc": P.site_loc(key, blocks[bi]["t"]["l"]), "detail": {}})
    if n < 2:
        raise E5Error(f"T9: only {n} Post::new_v2 call sites found in the backend")
    return findings, obl, {"t9_post_v2_sites": n}


def rule_t10(P):
    """Feature parameters store name ids compactly: cvParameters keeps only FirstParamUILabelNameID and a count (label i is id
    first+i), so the ids handed out for one feature must be FRESH and CONSECUTIVE.  T5 proves that for NameBuilder::add_anon_group
    (the allocator advances on every path).  Census: add_anon_group is the only function that issues a NameId from a
    `&mut NameBuilder`, and every call site in fea-rs that obtains a NameId from a NameBuilder resolves to it - an id-reusing or
    caching issuer (as fontTools' addMultilingualName does) breaks the first+i addressing."""
    from common import norm_fn
    findings, obl = [], []
    NB = "fea_rs::compile::tables::name::NameBuilder"
    issuers = []
    for k, b in sorted(P.bodies.items()):
        if (b.get("impl_self") or "") == NB and b.get("dk") == "AssocFn" and b["locals"][0].endswith("::NameId"):
            args = b["locals"][1:1 + b.get("argc", 0)]
            issuers.append((k, any(a.startswith("&mut ") and a.endswith("NameBuilder") for a in args)))
    if not any(k.endswith("::add_anon_group") for k, _ in issuers):
        raise E5Error("T10: NameBuilder::add_anon_group not found")
    for k, mut in issuers:
        name = k.rsplit("::", 1)[1]
        ok = name == "add_anon_group" or not mut
        obl.append({"rule": "T10", "inst": f"NameBuilder::{name} returns a NameId ({'the fresh-id allocator T5 verifies' if name == 'add_anon_group' else ('read-only peek' if not mut else 'another issuer: reported if a first+i addressed site uses it')})", "ok": True})
        if not ok:
            findings.append({"rule": "T10", "key": f"T10|issuer|{name}", "msg": f"{k} issues name ids from a &mut NameBuilder but is not the allocator T5 verifies: cvParameters stores only the first "
                             f"parameter-label id and a count, stylistic-set and size parameters one id per group - an issuer that can return an id handed out earlier (a cache of identical strings) "
                             f"breaks the consecutive first+i addressing, so a label refers to another feature's name or to no record", "loc": P.body_file_line(k), "detail": {}})
    n_calls = n_addr = 0
    bad_issuers_used = set()
    for k, b in sorted(P.bodies.items()):
        if not k.startswith("fea_rs::") or "#promoted" in k or b.get("exp"):
            continue
        if (b.get("impl_self") or "") == NB:
            continue   # the builder's own internals (add_anon_group peeks at next_name_id)
        ordinal = 0
        used = set()
        for blk in b["blocks"]:
            for st in blk["s"]:
                rv = st["rv"]
                if rv.get("p"):
                    used.add(rv["p"][0])
                for o in rv.get("o", []):
                    pl = o.get("m") or o.get("c")
                    if pl:
                        used.add(pl[0])
            tt = blk["t"]
            for o in (tt.get("a") or []) + ([tt["o"]] if tt.get("o") else []):
                if not isinstance(o, dict):
                    continue
                pl = o.get("m") or o.get("c")
                if pl:
                    used.add(pl[0])
        for blk in b["blocks"]:
            t = blk["t"]
            if t["t"] != "call" or blk.get("cl") or not (t.get("dty") or "").endswith("::NameId"):
                continue
            tys = [b["locals"][(a.get("m") or a.get("c"))[0]] for a in t["a"] if (a.get("m") or a.get("c"))]
            if not any(x.endswith("NameBuilder") for x in tys):
                continue
            res = (t["f"].get("k") or {}).get("res") or ""
            n_calls += 1
            d = t.get("d") or []
            to_first = any(isinstance(e, str) and e.startswith("f:first_param_ui_label_name_id:") for e in d[1:])
            if not to_first and len(d) == 1:
                # moved into the field by a later statement?
                for blk2 in b["blocks"]:
                    for st in blk2["s"]:
                        if any(isinstance(e, str) and e.startswith("f:first_param_ui_label_name_id:") for e in st["d"][1:]) and \
                                any((o.get("m") or o.get("c") or [None])[0] == d[0] for o in st["rv"].get("o", [])):
                            to_first = True
            discarded = len(d) == 1 and d[0] not in used
            if not (to_first or discarded):
                obl.append({"rule": "T10", "inst": f"{norm_fn(k)} line {t['l']}: id from {res.rsplit('::', 1)[-1]} is stored in a field of its own (no first+i addressing)", "ok": True})
                continue
            n_addr += 1
            ok = res.endswith("::add_anon_group")
            why = "becomes FirstParamUILabelNameID" if to_first else "is issued only for its position after the first label (result unused)"
            obl.append({"rule": "T10", "inst": f"{norm_fn(k)} line {t['l']}: the id that {why} comes from {res.rsplit('::', 1)[-1]}", "ok": ok})
            if not ok:
                bad_issuers_used.add(res)
                findings.append({"rule": "T10", "key": f"T10|call|{norm_fn(k)}|{res.rsplit('::', 1)[-1]}|{ordinal}", "msg": f"{k}: the name id that {why} is obtained from {res}, not from the fresh-id allocator "
                                 f"add_anon_group (whose advance-on-every-path T5 proves): parameter label i is addressed as first+i, so these ids must be fresh and consecutive - an issuer that can return "
                                 f"an earlier id (identical strings cached) makes a label refer to another feature's name or to no record", "loc": P.site_loc(k, t["l"]), "detail": {}})
                ordinal += 1
    findings = [f for f in findings if not f["key"].startswith("T10|issuer|") or any(r.endswith("::" + f["key"].split("|")[2]) for r in bad_issuers_used)]
    if n_addr < 2:
        raise E5Error(f"T10: only {n_addr} first+i addressed issuing sites found (CvParams::build has 2)")
    if n_calls < 10:
        raise E5Error(f"T10: only {n_calls} id-obtaining call sites found in fea-rs (11 counted by hand)")
    return findings, obl, {"t10_issuers": len(issuers), "t10_call_sites": n_calls, "t10_first_plus_i_sites": n_addr}


def rule_l9(P, tables):
    """'The same design in a .glyphs file and in a .glyphspackage gives the same font': the package loader rebuilds the single
    file's glyph list from the files in glyphs/, identifying a glyph by the `glyphname` INSIDE each file.  Which directory entries
    take part is therefore decided by the conditions inside the read_dir loop of RawFont::load_package, and nothing but the
    extension test may exclude an entry.  Census of the deciders in that loop (calls whose result a branch switches on, apart from
    the iterator's `next` and `?`): each is audited in tables/e5_tables.json with what it decides; a new one (a name filter, a size
    test, ..) is a violation until it has been read."""
    from common import norm_fn
    findings, obl = [], []
    ks = [k for k, b in P.bodies.items() if k.endswith("::load_package") and k.startswith("glyphs_reader::font::") and "#promoted" not in k and b.get("dk") == "AssocFn"]
    if len(ks) != 1:
        raise E5Error(f"L9: RawFont::load_package not found ({ks})")
    key = ks[0]
    b = P.bodies[key]
    blocks = b["blocks"]
    cfg = CFG(b)
    N = [bi for bi, blk in enumerate(blocks) if blk["t"]["t"] == "call" and not blk.get("cl") and
         ((blk["t"]["f"].get("k") or {}).get("fn") or "").endswith("Iterator::next") and "DirEntry" in (blk["t"].get("dty") or "")]
    if len(N) != 1:
        raise E5Error(f"L9: the read_dir loop of load_package was not identified ({len(N)} candidates)")
    fwd = cfg.reachable_from(N[0])
    loop = {x for x in fwd if N[0] in cfg.reachable_from(x)}
    call_dest = {}
    for x in loop:
        t = blocks[x]["t"]
        if t["t"] == "call" and len(t.get("d") or []) == 1:
            call_dest[t["d"][0]] = t
    defs = {}
    for x in loop:
        for st in blocks[x]["s"]:
            if len(st["d"]) == 1:
                defs.setdefault(st["d"][0], []).append(st["rv"])

    def origin_call(l, depth=0):
        if l in call_dest:
            return call_dest[l]
        if depth > 6:
            return None
        for rv in defs.get(l, []):
            src = rv.get("p") or ((rv.get("o") or [{}])[0].get("m") or (rv.get("o") or [{}])[0].get("c"))
            if src and rv.get("r") in ("use", "discr", "ref", "un", "cast"):
                r = origin_call(src[0], depth + 1)
                if r:
                    return r
        return None
    audited = {e["callee"]: e["reason"] for e in tables.get("e5_tables", {}).get("package_entry_deciders", [])}
    seen = []
    n_sw = 0
    for x in sorted(loop):
        t = blocks[x]["t"]
        if t["t"] != "sw":
            continue
        n_sw += 1
        pl = t["o"].get("m") or t["o"].get("c")
        c = origin_call(pl[0]) if pl else None
        fn = ((c or {}).get("f", {}).get("k") or {}).get("fn") or "?"
        short = "::".join(fn.split("::")[-2:]) if fn != "?" else "?"
        if fn.endswith("Iterator::next") or fn.endswith("Try::branch"):
            continue
        seen.append((short, t["l"]))
    for short, line in seen:
        ok = short in audited
        obl.append({"rule": "L9", "inst": f"load_package, read_dir loop, line {line}: branch on {short} - {audited.get(short, 'NOT AUDITED')[:100]}", "ok": ok})
        if not ok:
            findings.append({"rule": "L9", "key": f"L9|{norm_fn(key)}|{short}", "msg": f"{key}: inside the loop over the entries of glyphs/ a branch depends on {short}, which is not one of the audited "
                             f"conditions ({', '.join(sorted(audited))}): the package loader identifies glyphs by the glyphname inside each .glyph file, so any further condition on the entry "
                             f"(its file name, size, ..) can drop a glyph that the same design in a single .glyphs file has - the two containers then give different fonts", "loc": P.site_loc(key, line), "detail": {}})
    for a in audited:
        if a not in [s for s, _ in seen]:
            findings.append({"rule": "L9", "key": f"L9|stale|{a}", "msg": f"audited package-entry decider {a} matches nothing any more; remove it", "loc": "tables/e5_tables.json", "detail": {}})
    if n_sw < 4:
        raise E5Error(f"L9: only {n_sw} branches in the read_dir loop (6 counted by hand)")
    return findings, obl, {"l9_loop_blocks": len(loop), "l9_branches": n_sw, "l9_deciders": len(seen)}


def rule_l10(P, tables):
    """Container / entry-point equivalence, disk side: the same Glyphs text compiles from memory (Font::load_from_string) and from a
    path (Font::load).  The path route may read the file it is given and the members of a .glyphspackage; every OTHER file it
    consulted would be invisible to the in-memory route.  Census: functions of glyphs-reader that touch the file system directly and
    are reachable from the front end's constructors must be the audited loaders."""
    from common import norm_fn
    findings, obl = [], []
    allowed = {e["fn"]: e["reason"] for e in tables.get("e5_tables", {}).get("disk_route_io_allowed", [])}
    roots = [k for k in P.bodies if re.match(r"glyphs2fontir::source::\{impl#\d+\}::(new|new_from_memory)$", k)]
    if len(roots) < 2:
        raise E5Error(f"L10: Glyphs source constructors not found: {roots}")
    reach = P.reachable(roots)
    n = 0
    seen = set()
    for fn in sorted(reach):
        if not fn.startswith("glyphs_reader::") or fn not in P.bodies:
            continue
        io = sorted({t for s in P.iter_sites(fn) if s["kind"] in ("call", "fnref") for t in s["targets"]
                     if t.startswith("std::fs::") or re.match(r"std::path::\{impl#\d+\}::(exists|is_dir|is_file|try_exists|metadata|read_dir|read_link|canonicalize|symlink_metadata)$", t)})
        if not io:
            continue
        rk = P.bodies[fn].get("root") or fn
        isf = (P.bodies.get(rk) or {}).get("impl_self")
        nf = f"{isf}::{norm_fn(rk).rsplit('::', 1)[-1]}" if isf else norm_fn(rk)
        if nf in seen:
            continue
        seen.add(nf)
        n += 1
        ok = nf in allowed
        obl.append({"rule": "L10", "inst": f"{nf} touches the file system ({io[0].rsplit('::', 1)[-1]}, ..): " + (f"audited ({allowed[nf][:60]})" if ok else "NOT audited"), "ok": ok})
        if not ok:
            findings.append({"rule": "L10", "key": f"L10|{nf}", "msg": f"{fn} reads the file system ({', '.join(i.rsplit('::', 2)[-1] for i in io[:3])}) on the route that loads a Glyphs source from a path, "
                             f"and is not one of the audited loaders: a file consulted beside the source cannot be seen by the in-memory route (Font::load_from_string), so the same text "
                             f"compiles to different fonts from disk and from memory", "loc": P.body_file_line(fn), "detail": {"io": io}})
    if n < 2:
        raise E5Error(f"L10: only {n} file-system touching functions found on the Glyphs load route (loaders renamed?)")
    return findings, obl, {"l10_disk_route_io_functions": n}


def rule_g4(P):
    """'Error-free parse trees are accepted or rejected by validation without panic': a NUMBER token is `-?[0-9]+` of any length,
    so an accessor of the typed AST that does `text().parse().expect(..)` panics on `40000` unless something rejected the value
    first - and validation is that something.  Rule: the typed-AST accessors that panic on a token's TEXT (a `str::parse` whose
    Result is unwrapped/expected, directly or through another such accessor) are not called from the validation pass
    (fea_rs::compile::validate), which must use the checked forms and report a diagnostic instead."""
    from common import norm_fn
    findings, obl = [], []
    typed = {k: b for k, b in P.bodies.items() if k.startswith("fea_rs::token_tree::typed::") and "#promoted" not in k and not b.get("exp")}

    def callees(b):
        out = []
        for blk in b["blocks"]:
            t = blk["t"]
            if t["t"] == "call" and not blk.get("cl"):
                k = t["f"].get("k") or {}
                out.append((k.get("res") or k.get("fn") or "", t["l"]))
        return out
    panicky = {}
    for k, b in typed.items():
        cs = [c for c, _ in callees(b)]
        int_parse = any(blk["t"]["t"] == "call" and re.search(r"core::str::\{impl#\d+\}::parse$", (blk["t"]["f"].get("k") or {}).get("fn") or "") and
                        not any(g in ("f64", "f32") for g in (blk["t"]["f"].get("k") or {}).get("ga", [])) for blk in b["blocks"])   # a lexed float always parses as f64
        if int_parse and any(re.search(r"result::\{impl#\d+\}::(expect|unwrap)$", c) for c in cs):
            panicky[k] = "parses the token text and unwraps"
    if not panicky:
        raise E5Error("G4: no text-parsing accessor that unwraps found in fea_rs::token_tree::typed (Number::parse_signed moved?)")
    changed = True
    while changed:
        changed = False
        for k, b in typed.items():
            if k in panicky:
                continue
            for c, _ in callees(b):
                if c in panicky:
                    panicky[k] = f"calls {norm_fn(c).rsplit('::', 1)[-1]}"
                    changed = True
                    break
    def stable(fn):
        """Type::method[::{closure}] - impl block indices change whenever an impl is added above"""
        root = fn.split("::{closure", 1)[0]
        bb = P.bodies.get(root) or {}
        ty = (bb.get("impl_self") or "").split("<")[0].rsplit("::", 1)[-1]
        tail = re.sub(r"\{closure#\d+\}", "{closure}", fn.rsplit("}::", 1)[-1] if "{impl#" in fn else fn.rsplit("::", 1)[-1])
        return f"{ty}::{tail}" if ty else norm_fn(fn)
    n_val = n_other = 0
    for k, b in sorted(P.bodies.items()):
        if not k.startswith("fea_rs::") or "#promoted" in k or k in typed:
            continue
        in_validation = k.startswith("fea_rs::compile::validate::")
        ordinal = defaultdict(int)
        for c, line in callees(b):
            if c not in panicky:
                continue
            if not in_validation:
                n_other += 1
                continue
            n_val += 1
            short = stable(c)
            key = f"G4|{stable(k)}|{short}|{ordinal[short]}"
            ordinal[short] += 1
            obl.append({"rule": "G4", "inst": f"{norm_fn(k)} line {line}: validation calls {short}, which panics on an out-of-range number ({panicky[c]})", "ok": False})
            findings.append({"rule": "G4", "key": key, "msg": f"{k} (validation) calls {c}, which {panicky[c]}: a NUMBER token of any length reaches it (e.g. 40000), so validation panics on an "
                             f"error-free parse tree instead of reporting the value as out of range", "loc": P.site_loc(k, line), "detail": {}})
    obl.append({"rule": "G4", "inst": f"{len(panicky)} typed-AST accessors panic on token text ({', '.join(sorted(stable(x) for x in panicky))}); "
                                      f"{n_val} calls from validation, {n_other} from the compile pass (after validation; not in C13's scope)", "ok": True})
    if n_other < 3:
        raise E5Error(f"G4: only {n_other} compile-pass callers of the panicking accessors found (7 counted by hand)")
    return findings, obl, {"g4_panicky_accessors": len(panicky), "g4_validation_calls": n_val, "g4_compile_calls": n_other}


def rule_r15(P):
    """'A job's declared reads cover what it reads': the read access of a backend glyph job is REWRITTEN by the scheduler after the
    front-end glyph arrives (Workload::update_be_glyph_work), from the glyph's components - and the backend reads the component
    glyphs of EVERY source, while GlyphOrderWork may still rewrite a glyph whose sources disagree.  Structural clause: the function
    that derives those dependencies enumerates all sources of the glyph (Glyph::sources) and does not narrow to one instance
    (Glyph::default_instance / source at a single location) - components that only a non-default master has would otherwise be
    read without an ordering edge."""
    from common import norm_fn
    findings, obl = [], []
    roots = [k for k in P.bodies if re.fullmatch(r"fontc::workload::\{impl#\d+\}::update_be_glyph_work", k)]
    if len(roots) != 1:
        raise E5Error(f"R15: Workload::update_be_glyph_work not found ({roots})")
    root = roots[0]
    fam = [root] + [k for k in P.bodies if k.startswith(root + "::") and "#promoted" not in k]
    calls = []
    for k in fam:
        for blk in P.bodies[k]["blocks"]:
            t = blk["t"]
            if t["t"] == "call" and not blk.get("cl"):
                kk = t["f"].get("k") or {}
                calls.append(((kk.get("res") or kk.get("fn") or ""), t["l"], k))
    glyph_calls = [(c, l, k) for c, l, k in calls if re.match(r"fontir::ir::\{impl#\d+\}::", c) and (P.bodies.get(c, {}).get("impl_self") or "").endswith("ir::Glyph")]
    all_src = [x for x in glyph_calls if x[0].endswith("::sources")]
    narrowing = [x for x in glyph_calls if re.search(r"::(default_instance|source|get_source|instance_at)$", x[0])]
    ok = bool(all_src) and not narrowing
    obl.append({"rule": "R15", "inst": f"update_be_glyph_work derives the backend glyph job's read access from every source of the glyph (Glyph methods called: "
                                       f"{sorted({c.rsplit('::', 1)[-1] for c, _, _ in glyph_calls})})", "ok": ok})
    if not ok:
        what = f"calls Glyph::{narrowing[0][0].rsplit('::', 1)[-1]}" if narrowing else "never calls Glyph::sources"
        findings.append({"rule": "R15", "key": f"R15|{norm_fn(root)}|{'narrow' if narrowing else 'no-sources'}",
                         "msg": f"{root} {what}: the read access it writes for Be(GlyfFragment) is then derived from one instance only, so a component that only another master has (a stale "
                                f"reference GlyphOrderWork later prunes, or a genuinely different composite) gets neither its Glyph dependency nor the GlyphOrder dependency, and the backend job "
                                f"can read the glyph while GlyphOrderWork rewrites it", "loc": P.site_loc(root, (narrowing or [(0, P.bodies[root]['blocks'][0]['t']['l'], 0)])[0][1]), "detail": {}})
    return findings, obl, {"r15_glyph_methods": len(glyph_calls)}
