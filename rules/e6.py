"""Engine E6 - narrowing census (C19): every place where a value can wrap, saturate or behave differently in debug and
release builds, inside the value path (functions reachable from a job's exec that live in fontbe, fontir, fontdrasil)."""
import re


class E6Error(Exception):
    pass
from collections import defaultdict

from prog import CFG, def_sites, backward_slice, operand_local, operand_place

INT_BITS = {"u8": 8, "i8": 8, "u16": 16, "i16": 16, "u32": 32, "i32": 32, "u64": 64, "i64": 64, "usize": 64, "isize": 64, "u128": 128, "i128": 128}
FLOATS = {"f32", "f64"}
VALUE_CRATES = ("fontbe::", "fontir::", "fontdrasil::")
SATURATING_CALLS = ("OtRound::ot_round", "F2Dot14::from_f32", "F2Dot14::from_f64", "Fixed::from_f64", "Fixed::from_f32")


def signed(t):
    return t.startswith("i")


def int_range(t):
    b = INT_BITS[t]
    if signed(t):
        return (-(1 << (b - 1)), (1 << (b - 1)) - 1)
    return (0, (1 << b) - 1)


def narrowing(fr, to):
    if fr not in INT_BITS or to not in INT_BITS:
        return False
    a, b = int_range(fr), int_range(to)
    return a[0] < b[0] or a[1] > b[1]


def value_path(P, M):
    fns = set()
    for j in M.jobs.values():
        for f in j["reach"]:
            if f in P.bodies and f.startswith(VALUE_CRATES):
                fns.add(f)
    return fns


class Site:
    def __init__(self, fn, kind, desc, line, bi, st):
        self.fn, self.kind, self.desc, self.line, self.bi, self.st = fn, kind, desc, line, bi, st


def census(P, fns):
    out = []
    for fn in sorted(fns):
        b = P.bodies[fn]
        for bi, blk in enumerate(b["blocks"]):
            if blk["cl"]:
                continue
            for st in blk["s"]:
                rv = st["rv"]
                if rv.get("r") == "cast" and not st.get("x"):
                    ck = rv["ck"]
                    fr, to = rv["from"], rv["to"]
                    if ck == "IntToInt" and narrowing(fr, to):
                        out.append(Site(fn, "cast", f"{fr}->{to}", st["l"], bi, st))
                    elif ck == "FloatToInt" and to in INT_BITS:
                        out.append(Site(fn, "fcast", f"{fr}->{to}", st["l"], bi, st))
            t = blk["t"]
            if t["t"] == "assert" and t.get("ak", "").startswith("Overflow") and not t.get("x"):
                ty = t.get("ty", "")
                if ty in INT_BITS and INT_BITS[ty] < 64:
                    out.append(Site(fn, "arith", f"{t['ak']}:{ty}", t["l"], bi, t))
            if t["t"] == "call" and not t.get("x"):
                k = t["f"].get("k")
                if k:
                    name = k["fn"]
                    if name.endswith("OtRound::ot_round"):
                        ga = k["ga"]
                        out.append(Site(fn, "otround", f"{ga[0]}->{ga[1] if len(ga) > 1 else '?'}", t["l"], bi, t))
                    elif any(name.endswith(x) for x in ("F2Dot14::from_f32", "Fixed::from_f64")) or re.search(r"f2dot14::\{impl#\d+\}::from_f(32|64)$|fixed::\{impl#\d+\}::from_f64$", name):
                        out.append(Site(fn, "fixedconv", name.split("::")[-3] + "::" + name.split("::")[-1], t["l"], bi, t))
    return out


def run(P, M, tables):
    findings, obl, samples = [], [], []
    fns = value_path(P, M)
    sites = [s for s in census(P, fns) if not (s.kind == "otround" and s.desc in ("f64->f64", "f32->f32"))]
    from common import norm_fn
    table = {(e["fn"], e["kind"], e["desc"]): e for e in tables.get("e6_narrowing", {}).get("sites", [])}
    grouped = defaultdict(list)
    for s in sites:
        grouped[(norm_fn(s.fn), s.kind, s.desc)].append(s)
    used = set()
    nb = nf = 0
    for key, ss in sorted(grouped.items()):
        e = table.get(key)
        loc = P.site_loc(ss[0].fn, ss[0].line)
        what = {"cast": "integer cast", "fcast": "float-to-int cast (saturating)", "arith": "narrow-integer arithmetic (panics in debug, wraps in release)",
                "otround": "saturating ot_round conversion", "fixedconv": "saturating fixed-point conversion"}[key[1]]
        if e is None or len(ss) > e.get("count", 1):
            obl.append({"rule": "E6", "inst": f"{key[0]} {key[1]} {key[2]} x{len(ss)}", "ok": False})
            findings.append({"rule": "E6", "key": f"E6|{key[0]}|{key[1]}|{key[2]}",
                             "msg": f"{key[0]}: unaudited {what} {key[2]} ({len(ss)} site(s)" + (f", audited count {e['count']}" if e else "") + ") in the value path: a value that does not fit can wrap, be clamped or make debug and release builds disagree; guard it (try_into + error), prove the range, or audit it",
                             "loc": loc, "detail": {"lines": [s.line for s in ss]}})
            continue
        used.add(key)
        if e["verdict"] == "bounded":
            nb += len(ss)
            wok, why = True, ""
            if e.get("witness"):
                import witness
                wok, why = witness.check_shape(P, e["witness"])
            obl.append({"rule": "E6", "inst": f"{key[0]} {key[1]} {key[2]} x{len(ss)}: bounded ({e['reason'][:70]})" + (" [witness checked]" if e.get("witness") else ""), "ok": wok})
            if not wok:
                findings.append({"rule": "E6-witness", "key": f"E6w|{key[0]}|{key[1]}|{key[2]}",
                                 "msg": f"{key[0]}: the range argument recorded for {what} {key[2]} no longer holds: {why} ({e['reason'][:160]})",
                                 "loc": loc, "detail": {}})
                continue
            if len(samples) < 6:
                samples.append({"rule": "E6", "site": loc, "kind": key[1], "types": key[2], "verdict": "bounded: " + e["reason"]})
        else:
            nf += len(ss)
            obl.append({"rule": "E6", "inst": f"{key[0]} {key[1]} {key[2]} x{len(ss)}: listed finding", "ok": False})
            findings.append({"rule": "E6", "key": f"E6|{key[0]}|{key[1]}|{key[2]}",
                             "msg": f"{key[0]}: {what} {key[2]} x{len(ss)}: {e['reason']}", "loc": loc, "detail": {"lines": [s.line for s in ss]}})
    stale = sorted("|".join(k) for k in set(table) - used)
    stats = {"value_path_functions": len(fns), "narrowing_sites": len(sites), "site_groups": len(grouped), "bounded_sites": nb,
             "finding_sites": nf, "stale_table_entries": stale}
    return findings, obl, samples, stats


def rule_cache(P, tables):
    """ir::Glyph caches two summaries of its component transforms (`has_consistent_2x2_transforms`, `has_overflowing_2x2_transforms`)
    when it is built; GlyphOrderWork decides from them whether a composite must be turned into contours because its 2x2 does not fit
    F2Dot14.  `Glyph::sources_mut()` hands out the instances without refreshing the cache.  Structural clause: a function that edits
    instances through sources_mut() AND composes component transforms (Affine multiplication) must rebuild the glyph through
    Glyph::new afterwards, or the overflow fallback never sees the composed transform and the backend clamps it silently; every
    other user of sources_mut() is listed with the reason the cached summaries stay valid."""
    from common import norm_fn
    from prog import CFG
    findings, obl = [], []
    sm = [k for k, b in P.bodies.items() if k.endswith("::sources_mut") and (b.get("impl_self") or "").split("<")[0] == "fontir::ir::Glyph"]
    gnew = [k for k, b in P.bodies.items() if k.endswith("::new") and (b.get("impl_self") or "").split("<")[0] == "fontir::ir::Glyph"]
    if len(sm) != 1 or len(gnew) != 1:
        raise E6Error(f"cache rule: Glyph::sources_mut / Glyph::new not found: {sm} {gnew}")
    audited = {e["fn"]: e for e in tables.get("e6_narrowing", {}).get("sources_mut_callers", [])}
    seen = set()
    for key, b in sorted(P.bodies.items()):
        if "#promoted" in key:
            continue
        sites = [s for s in P.iter_sites(key) if s["kind"] == "call" and sm[0] in s["targets"] and not b["blocks"][s["bi"]]["cl"]]
        if not sites:
            continue
        root = b.get("root") or key
        nf = norm_fn(root)
        seen.add(nf)
        fam = [root] + [k for k in P.bodies if k.startswith(root + "::{closure")]
        composes = False
        for f in fam:
            for s in P.iter_sites(f):
                if s["kind"] == "call" and s["info"] and re.match(r"kurbo::affine::\{impl#\d+\}::mul(_assign)?$", s["info"].get("res") or ""):
                    composes = True
        rebuilds = False
        if key == root:
            cfg = CFG(b)
            after = set()
            for s in sites:
                t = b["blocks"][s["bi"]]["t"]
                if t["to"]:
                    after |= set(cfg.reachable_from(t["to"][0]))
            for s in P.iter_sites(root):
                if s["kind"] == "call" and gnew[0] in s["targets"] and s["bi"] in after:
                    rebuilds = True
        if composes:
            ok = rebuilds
            obl.append({"rule": "CACHE", "inst": f"{nf} composes component transforms through sources_mut() and rebuilds the glyph with Glyph::new afterwards", "ok": ok})
            if not ok:
                findings.append({"rule": "CACHE", "key": f"CACHE|{nf}", "msg": f"{root} edits a glyph's instances through Glyph::sources_mut() and multiplies component transforms, but does not "
                                 f"rebuild the glyph with Glyph::new afterwards: the cached 2x2 overflow/consistency summaries still describe the old transforms, the "
                                 f"decompose-on-overflow fallback is skipped and a composed scale beyond +-2 is clamped by F2Dot14 in the backend", "loc": P.body_file_line(root), "detail": {}})
            continue
        e = audited.get(nf)
        obl.append({"rule": "CACHE", "inst": f"{nf} uses sources_mut() without composing transforms: {(e or {}).get('reason', 'NOT AUDITED')[:90]}", "ok": e is not None})
        if e is None:
            findings.append({"rule": "CACHE", "key": f"CACHE|unaudited|{nf}", "msg": f"{root} edits a glyph's instances through Glyph::sources_mut() (which does not refresh the cached 2x2 summaries) "
                             f"and is not in the audited list of callers", "loc": P.body_file_line(root), "detail": {}})
    for fn in audited:
        if fn not in seen:
            findings.append({"rule": "CACHE", "key": f"CACHE|stale|{fn}", "msg": f"audited sources_mut caller {fn} no longer calls it; remove the entry", "loc": "tables/e6_narrowing.json", "detail": {}})
    if len(seen) < 3:
        raise E6Error("cache rule: too few sources_mut callers seen")
    return findings, obl, {"sources_mut_callers": len(seen)}


def rule_fallback_order(P):
    """The shape-preserving fallback of C19 for component 2x2 scales outside [-2, 2] is decomposition, decided in the glyph-order job.
    The only OTHER restructuring it can choose, `GlyphOp::MoveContoursToComponent`, keeps the components: every place that chooses
    it must already have tested `has_overflowing_component_transforms` (the call dominates the block that builds the variant),
    otherwise a glyph with contours and an over-scaled component keeps the component and the backend clamps the scale."""
    from prog import CFG
    findings, obl = [], []
    n = 0
    for k, b in P.bodies.items():
        if not k.startswith("fontir::glyph::") or "#promoted" in k:
            continue
        sites = [bi for bi, blk in enumerate(b["blocks"]) if not blk["cl"] for st in blk["s"]
                 if st["rv"].get("r") == "agg" and st["rv"].get("adt") == "fontir::glyph::GlyphOp" and st["rv"].get("v") == "MoveContoursToComponent"]
        if not sites:
            continue
        cfg = CFG(b)
        tests = [s["bi"] for s in P.iter_sites(k) if s["kind"] == "call" and any(t.endswith("::has_overflowing_component_transforms") for t in s["targets"])]
        for bi in sites:
            n += 1
            ok = any(cfg.dominates(t, bi) and t != bi for t in tests)
            obl.append({"rule": "W-order", "inst": f"{k}: GlyphOp::MoveContoursToComponent is chosen only after has_overflowing_component_transforms was tested", "ok": ok})
            if not ok:
                findings.append({"rule": "W-order", "key": f"W-order|{k.rsplit('::', 1)[-1]}", "msg": f"{k} chooses GlyphOp::MoveContoursToComponent (the glyph keeps its components) on a path that has not tested "
                                 f"has_overflowing_component_transforms: a component scale outside [-2, 2] then reaches the backend and is clamped to 1.99994 instead of being decomposed",
                                 "loc": P.body_file_line(k), "detail": {}})
    if n < 1:
        raise RuntimeError("W-order: no construction of GlyphOp::MoveContoursToComponent found in fontir::glyph (enum renamed?)")
    return findings, obl
