"""Mutation self-test of the *analyser* (never runs fontc): each mutant is a small edit of a scratch copy of
/repo's current tree that breaks one rule instance while still compiling; the check must report the expected key."""
import json
import os
import re
import shutil
import subprocess
import sys
import tempfile

VERIF = os.path.dirname(os.path.dirname(os.path.abspath(__file__)))


def load_mutants(pid):
    p = os.path.join(VERIF, "selftest", "mutants", f"{pid}.json")
    if not os.path.exists(p):
        return []
    with open(p) as f:
        return json.load(f)


def make_scratch():
    d = tempfile.mkdtemp(prefix="fontc-mut-")
    # copy the working tree (not HEAD): sources only
    subprocess.check_call(["rsync", "-a", "--exclude", ".git", "--exclude", "target", "--exclude", "resources/testdata",
                           "--exclude", "ttx_diff", "--exclude", "docs", "/repo/", d + "/"])
    return d


def run_mutants(pid, only=None, log=sys.stderr):
    """returns list of dict(name, status: caught|missed|stale|nocompile, detail)"""
    muts = load_mutants(pid)
    results = []
    if not muts:
        return results
    scratch = make_scratch()
    try:
        for m in muts:
            if only and m["name"] not in only:
                continue
            edits = m.get("edits", [])
            backups = {}
            stale = False
            patch = os.path.join(VERIF, m["patch"]) if m.get("patch") else None
            if patch:
                # a stored seeded change (seeded/<id>/patch.diff) replayed as a mutant
                if subprocess.run(["patch", "-p1", "--dry-run", "-s", "-f", "-i", patch], cwd=scratch, stdout=subprocess.DEVNULL, stderr=subprocess.DEVNULL).returncode != 0:
                    results.append({"name": m["name"], "status": "stale", "detail": "stored patch no longer applies to the current tree"})
                    continue
                touched = [l[6:].strip() for l in open(patch) if l.startswith("+++ b/")]
                for f in touched:
                    p = os.path.join(scratch, f)
                    backups[p] = open(p).read() if os.path.exists(p) else None
                subprocess.check_call(["patch", "-p1", "-s", "-f", "-i", patch], cwd=scratch, stdout=subprocess.DEVNULL)
            for e in edits:
                p = os.path.join(scratch, e["file"])
                s = open(p).read()
                backups.setdefault(p, s)
                if e["old"] not in s:
                    stale = True
                    break
                s = s.replace(e["old"], e["new"], 1)
                open(p, "w").write(s)
            if stale:
                for p, s in backups.items():
                    open(p, "w").write(s)
                results.append({"name": m["name"], "status": "stale", "detail": "anchor text not found in current tree"})
                continue
            env = dict(os.environ)
            env["FONTC_REPO"] = scratch
            env["FONTC_VERIF_NO_EVIDENCE"] = "1"
            r = subprocess.run([os.path.join(VERIF, "check"), pid, "--tier", "quick"], env=env, cwd=VERIF,
                               stdout=subprocess.PIPE, stderr=subprocess.STDOUT, text=True)
            out = r.stdout
            rx = re.compile(m["expect"])
            hit = [l for l in out.splitlines() if l.startswith("[") and rx.search(l)]
            keys_hit = rx.search(out) is not None and "VIOLATION" in out
            if "cargo check under the driver failed" in out:
                st = "nocompile"
            elif keys_hit:
                st = "caught"
            else:
                st = "missed"
            results.append({"name": m["name"], "status": st, "expect": m["expect"], "detail": (hit[0][:300] if hit else out[-400:])})
            print(f"[selftest {pid}] {m['name']}: {st}", file=log)
            for p, s in backups.items():
                if s is None:
                    os.remove(p)
                else:
                    open(p, "w").write(s)
            for junk in [os.path.join(dp, f) for dp, _, fs in os.walk(scratch) for f in fs if f.endswith(".orig") or f.endswith(".rej")]:
                os.remove(junk)
    finally:
        shutil.rmtree(scratch, ignore_errors=True)
    return results


if __name__ == "__main__":
    pid = sys.argv[1]
    res = run_mutants(pid, only=set(sys.argv[2:]) or None)
    print(json.dumps(res, indent=1))
