#!/bin/sh
# Build the fact-extraction driver and warm the extraction target dir (offline).
set -e
cd "$(dirname "$0")"
export CARGO_NET_OFFLINE=true
python3 rules/facts.py default
